#![no_main]
//! Coverage-guided target for the encoder-side properties (C01, C03-C08, C16).
use libfuzzer_sys::fuzz_target;

fuzz_target!(|data: &[u8]| {
    mctp_verif::fuzz::target_body("enc", data);
});
