#![no_main]
//! Coverage-guided target for the receive path (C02, C09, C10, C11, C17).
//! The semantic oracle runs in-target; MCTP_FUZZ_PROPS selects the property.
use libfuzzer_sys::fuzz_target;

fuzz_target!(|data: &[u8]| {
    mctp_verif::fuzz::target_body("recv", data);
});
