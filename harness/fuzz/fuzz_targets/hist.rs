#![no_main]
//! Coverage-guided target for responder histories (C12, C13, C14, C15).
use libfuzzer_sys::fuzz_target;

fuzz_target!(|data: &[u8]| {
    mctp_verif::fuzz::target_body("hist", data);
});
