//! mctp-check <ID> [--tier quick|thorough] [--replay FILE] [--cases N] [--no-evidence]

use mctp_verif::engine::*;
use mctp_verif::props;
use std::path::PathBuf;

fn usage() -> ! {
    eprintln!("usage: mctp-check <C01..C19> [--tier quick|thorough] [--replay FILE] [--cases N] [--no-evidence]");
    std::process::exit(2)
}

struct Args {
    id: String,
    tier: Tier,
    replay: Option<PathBuf>,
    cases: Option<u64>,
    no_evidence: bool,
    fuzz_only: bool,
}

fn parse() -> Args {
    let mut it = std::env::args().skip(1);
    let Some(id) = it.next() else { usage() };
    let mut a = Args { id, tier: Tier::Quick, replay: None, cases: None, no_evidence: false, fuzz_only: false };
    while let Some(x) = it.next() {
        match x.as_str() {
            "--tier" => {
                a.tier = match it.next().as_deref() {
                    Some("quick") => Tier::Quick,
                    Some("thorough") => Tier::Thorough,
                    _ => usage(),
                }
            }
            "--replay" => a.replay = Some(PathBuf::from(it.next().unwrap_or_else(|| usage()))),
            "--cases" => a.cases = it.next().and_then(|s| s.parse().ok()),
            "--no-evidence" => a.no_evidence = true,
            "--fuzz-only" => a.fuzz_only = true,
            _ => usage(),
        }
    }
    if std::env::var("MCTP_NO_EVIDENCE").is_ok() {
        // set by the self-test tools, which run the checks against modified trees
        a.no_evidence = true;
    }
    if let Ok(t) = std::env::var("VERIF_TIER") {
        match t.as_str() {
            "quick" => a.tier = Tier::Quick,
            "thorough" => a.tier = Tier::Thorough,
            _ => {}
        }
    }
    a
}

fn go<P: Prop>(p: P, a: &Args) -> i32 {
    if let Some(path) = &a.replay {
        return replay_property(&p, path);
    }
    let shards = std::env::var("VERIF_SHARDS").ok().and_then(|s| s.parse().ok()).unwrap_or(16usize).max(1);
    let opts = RunOpts { tier: a.tier, seed: seed_from_env(), shards, budget_override: a.cases };
    if a.fuzz_only {
        // machinery self-test: run only the libFuzzer campaign (no evidence is written)
        let procs = std::env::var("MCTP_FUZZ_PROCS").ok().and_then(|x| x.parse().ok()).unwrap_or(8usize);
        let runs = std::env::var("MCTP_FUZZ_RUNS").ok().and_then(|x| x.parse().ok()).unwrap_or(1_500_000u64);
        let res = mctp_verif::campaign::run_campaign(p.id(), opts.seed, procs, runs, std::time::Duration::from_secs(1500));
        println!("fuzz-only {}: available={} {} stats={}", p.id(), res.available, res.note, res.stats);
        if let Some(f) = res.found.first() {
            let fails = vec![Failure::new(f.sig.clone(), f.detail.clone())];
            let (path, _) = write_replay(p.id(), opts.seed, "thorough", &f.case, &fails);
            println!("FAIL property={} sig={} :: {}", p.id(), f.sig, f.detail);
            println!("VIOLATION property={} replay={}", p.id(), path.display());
            return 1;
        }
        return if res.inconclusive || !res.available { 2 } else { 0 };
    }
    let mut s = run_property(&p, &opts);
    // ---- engine 2: libFuzzer campaign (thorough tier of the byte-string and history properties)
    if a.tier == Tier::Thorough && s.exit == 0 && a.cases.is_none() && mctp_verif::campaign::target_for(p.id()).is_some() && std::env::var("MCTP_NO_FUZZ").is_err() {
        let procs = std::env::var("MCTP_FUZZ_PROCS").ok().and_then(|x| x.parse().ok()).unwrap_or(8usize);
        let runs = std::env::var("MCTP_FUZZ_RUNS").ok().and_then(|x| x.parse().ok()).unwrap_or(1_500_000u64);
        let res = mctp_verif::campaign::run_campaign(p.id(), opts.seed, procs, runs, std::time::Duration::from_secs(1500));
        if res.available {
            s.evidence["coverage"]["fuzz"] = res.stats.clone();
        } else {
            s.evidence["coverage"]["fuzz"] = serde_json::json!({"fuzz": "unavailable", "reason": res.note});
            println!("note: fuzz engine unavailable for {}: {}", p.id(), res.note);
        }
        if let Some(f) = res.found.first() {
            let fails = vec![Failure::new(f.sig.clone(), f.detail.clone())];
            let (path, doc) = write_replay(p.id(), opts.seed, "thorough", &f.case, &fails);
            println!("FAIL property={} sig={} :: {}", p.id(), f.sig, f.detail);
            println!("VIOLATION property={} replay={}", p.id(), path.display());
            s.evidence["coverage"]["violation"] = doc;
            s.evidence["violations"] = serde_json::json!(1);
            s.exit = 1;
        } else if res.inconclusive {
            println!("INCONCLUSIVE property={} fuzz campaign timed out or left an artifact that does not reproduce", p.id());
            s.exit = 2;
        }
    }
    if !a.no_evidence {
        write_evidence(p.id(), &s.evidence);
    }
    let c = &s.evidence["coverage"];
    let fz = if c["fuzz"]["executions"].is_null() { String::new() } else { format!(" fuzz_executions={}", c["fuzz"]["executions"]) };
    println!(
        "{} {} seed={} evaluations={} distinct_nontrivial={}{} wall={:.1}s exit={}",
        p.id(),
        a.tier.name(),
        opts.seed,
        c["evaluations"],
        c["distinct_nontrivial"],
        fz,
        s.evidence["wall_s"].as_f64().unwrap_or(0.0),
        s.exit
    );
    s.exit
}

fn main() {
    let a = parse();
    mctp_verif::sut::install_panic_hook();
    if let Err(e) = mctp_verif::crc::self_check().and_then(|_| mctp_verif::refmodel::self_check()) {
        println!("INCONCLUSIVE oracle self-check failed: {}", e);
        std::process::exit(2);
    }
    // watchdog: a hang is inconclusive (exit 2), never a violation
    let limit = match a.tier {
        Tier::Quick => 900,
        Tier::Thorough => 4 * 3600,
    };
    std::thread::spawn(move || {
        std::thread::sleep(std::time::Duration::from_secs(limit));
        println!("INCONCLUSIVE watchdog: no result after {} s", limit);
        std::process::exit(2);
    });
    let code = match a.id.as_str() {
        "C01" => go(props::c01::C01, &a),
        "C02" => go(props::c02::C02, &a),
        "C03" => go(props::c03::C03, &a),
        "C04" => go(props::c04::C04, &a),
        "C05" => go(props::c05::C05, &a),
        "C06" => go(props::c06::C06, &a),
        "C07" => go(props::c07::C07, &a),
        "C08" => go(props::c08::C08, &a),
        "C09" => go(props::c09::C09, &a),
        "C10" => go(props::c10::C10, &a),
        "C11" => go(props::c11::C11, &a),
        "C12" => go(props::c12::C12, &a),
        "C13" => go(props::c13::C13, &a),
        "C14" => go(props::c14::C14, &a),
        "C15" => go(props::c15::C15, &a),
        "C16" => go(props::c16::C16, &a),
        "C17" => go(props::c17::C17, &a),
        "C18" => go(props::c18::C18, &a),
        "C19" => go(props::c19::C19, &a),
        _ => {
            eprintln!("unknown property {}", a.id);
            2
        }
    };
    std::process::exit(code);
}
