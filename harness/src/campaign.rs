//! libFuzzer campaigns (engine 2): build the cargo-fuzz targets, run K
//! fixed-work processes in parallel with fresh corpora, collect statistics,
//! and turn any crash artifact into a minimised property replay.

use crate::fuzz::{self, Found};
use crate::known::Known;
use serde_json::{json, Value};
use std::path::PathBuf;
use std::process::{Command, Stdio};
use std::time::{Duration, Instant};

pub struct CampaignResult {
    pub available: bool,
    pub note: String,
    pub stats: Value,
    /// minimised findings (property, signature, detail, case)
    pub found: Vec<Found>,
    /// true when something went wrong that is not a property violation
    /// (time-out, artifact that does not reproduce): exit 2
    pub inconclusive: bool,
}

pub fn target_for(id: &str) -> Option<&'static str> {
    match id {
        "C02" | "C09" | "C10" | "C11" | "C17" => Some("recv"),
        "C12" | "C13" | "C14" | "C15" => Some("hist"),
        "C01" | "C03" | "C04" | "C05" | "C06" | "C07" | "C08" | "C16" => Some("enc"),
        _ => None,
    }
}

fn harness_dir() -> PathBuf {
    crate::engine::verif_root().join("harness")
}

fn eval(target: &str, data: &[u8], id: &str, known: &Known) -> Vec<Found> {
    match target {
        "recv" => fuzz::recv_one(data, &[id], known),
        "hist" => fuzz::hist_one(data, &[id], known),
        _ => fuzz::enc_one(data, &[id], known),
    }
}

/// ddmin-style minimisation of the raw fuzz input under the predicate "the
/// same property fails with the same signature".
pub fn minimise(target: &str, data: &[u8], id: &str, sig: &str, known: &Known) -> Vec<u8> {
    let holds = |d: &[u8]| eval(target, d, id, known).iter().any(|f| f.sig == sig);
    let mut cur = data.to_vec();
    let mut chunk = cur.len() / 2;
    let mut budget = 20_000u32;
    while chunk >= 1 && budget > 0 {
        let mut i = 0;
        let mut progressed = false;
        while i + chunk <= cur.len() && budget > 0 {
            budget -= 1;
            let mut cand = cur[..i].to_vec();
            cand.extend_from_slice(&cur[i + chunk..]);
            if holds(&cand) {
                cur = cand;
                progressed = true;
            } else {
                i += chunk;
            }
        }
        if !progressed {
            chunk /= 2;
        }
    }
    for i in 0..cur.len() {
        if budget == 0 {
            break;
        }
        if cur[i] != 0 {
            budget -= 1;
            let mut cand = cur.clone();
            cand[i] = 0;
            if holds(&cand) {
                cur = cand;
            }
        }
    }
    cur
}

fn parse_stats(log: &str) -> (u64, u64, u64, u64) {
    // (executed units, cov, ft, corpus entries)
    let mut execs = 0u64;
    let (mut cov, mut ft, mut corp) = (0u64, 0u64, 0u64);
    for line in log.lines() {
        if let Some(rest) = line.strip_prefix("stat::number_of_executed_units:") {
            execs = rest.trim().parse().unwrap_or(0);
        }
        if line.starts_with('#') && line.contains(" cov: ") {
            let toks: Vec<&str> = line.split_whitespace().collect();
            for w in toks.windows(2) {
                match w[0] {
                    "cov:" => cov = w[1].parse().unwrap_or(cov),
                    "ft:" => ft = w[1].parse().unwrap_or(ft),
                    "corp:" => corp = w[1].split('/').next().and_then(|x| x.parse().ok()).unwrap_or(corp),
                    _ => {}
                }
            }
        }
    }
    (execs, cov, ft, corp)
}

pub fn run_campaign(id: &str, seed: u64, procs: usize, runs: u64, limit: Duration) -> CampaignResult {
    let target = match target_for(id) {
        Some(t) => t,
        None => return CampaignResult { available: false, note: "no fuzz target serves this property".into(), stats: Value::Null, found: vec![], inconclusive: false },
    };
    let t0 = Instant::now();
    let hdir = harness_dir();
    // ---- build (instrumented with sancov + ASan, debug assertions on)
    let build = Command::new("cargo")
        .args(["+nightly", "fuzz", "build", target])
        .current_dir(&hdir)
        .env("CARGO_NET_OFFLINE", "true")
        .stdout(Stdio::piped())
        .stderr(Stdio::piped())
        .output();
    let ok = matches!(&build, Ok(o) if o.status.success());
    if !ok {
        let why = match build {
            Ok(o) => String::from_utf8_lossy(&o.stderr).lines().rev().take(6).collect::<Vec<_>>().join(" | "),
            Err(e) => e.to_string(),
        };
        return CampaignResult { available: false, note: format!("cargo +nightly fuzz build failed: {}", why), stats: json!({"fuzz": "unavailable"}), found: vec![], inconclusive: false };
    }
    let bin = hdir.join("fuzz/target/x86_64-unknown-linux-gnu/release").join(target);
    if !bin.exists() {
        return CampaignResult { available: false, note: format!("fuzz binary {} not found", bin.display()), stats: json!({"fuzz": "unavailable"}), found: vec![], inconclusive: false };
    }
    // ---- launch
    let work = hdir.join("fuzz/work").join(format!("{}-{}", id, target));
    let _ = std::fs::remove_dir_all(&work);
    let seeds = match target {
        "recv" => fuzz::recv_seed_corpus(),
        "hist" => fuzz::hist_seed_corpus(),
        _ => fuzz::enc_seed_corpus(),
    };
    let mut children = Vec::new();
    for i in 0..procs {
        let pdir = work.join(format!("p{}", i));
        let corpus = pdir.join("corpus");
        let arts = pdir.join("artifacts");
        let _ = std::fs::create_dir_all(&corpus);
        let _ = std::fs::create_dir_all(&arts);
        if i != 0 {
            // process 0 starts from an empty corpus, the others from valid packets
            for (k, s) in seeds.iter().enumerate() {
                let _ = std::fs::write(corpus.join(format!("seed{:03}", k)), s);
            }
        }
        let log = std::fs::File::create(pdir.join("log.txt")).expect("log file");
        let fseed = (seed.wrapping_mul(2654435761).wrapping_add(i as u64 * 7919 + 1)) & 0x7FFF_FFFF;
        let child = Command::new(&bin)
            .arg(&corpus)
            .arg(format!("-runs={}", runs))
            .arg(format!("-seed={}", fseed.max(1)))
            .arg("-max_len=640")
            .arg("-len_control=0")
            .arg("-print_final_stats=1")
            .arg("-timeout=20")
            .arg("-rss_limit_mb=4096")
            .arg(format!("-artifact_prefix={}/", arts.display()))
            .env("MCTP_FUZZ_PROPS", id)
            .env("VERIF_ROOT", crate::engine::verif_root())
            .env("ASAN_OPTIONS", "detect_leaks=0:abort_on_error=1")
            .stdout(Stdio::null())
            .stderr(Stdio::from(log))
            .spawn();
        match child {
            Ok(c) => children.push((i, c, pdir)),
            Err(e) => {
                return CampaignResult { available: false, note: format!("cannot start fuzz process: {}", e), stats: json!({"fuzz": "unavailable"}), found: vec![], inconclusive: false };
            }
        }
    }
    // ---- wait (bounded)
    let mut timed_out = false;
    let mut exit_codes = Vec::new();
    for (i, c, _) in children.iter_mut() {
        loop {
            match c.try_wait() {
                Ok(Some(st)) => {
                    exit_codes.push((*i, st.code().unwrap_or(-1)));
                    break;
                }
                Ok(None) => {
                    if t0.elapsed() > limit {
                        let _ = c.kill();
                        timed_out = true;
                    }
                    std::thread::sleep(Duration::from_millis(100));
                }
                Err(_) => break,
            }
        }
    }
    // ---- collect
    let known = Known::load(&crate::engine::verif_root().join("KNOWN_FINDINGS.txt"));
    let (mut execs, mut cov, mut ft, mut corp) = (0u64, 0u64, 0u64, 0u64);
    let mut found: Vec<Found> = Vec::new();
    let mut stray: Vec<String> = Vec::new();
    for (_, _, pdir) in &children {
        let log = std::fs::read_to_string(pdir.join("log.txt")).unwrap_or_default();
        let (e, c, f, k) = parse_stats(&log);
        execs += e;
        cov = cov.max(c);
        ft = ft.max(f);
        corp += k;
        if let Ok(rd) = std::fs::read_dir(pdir.join("artifacts")) {
            for ent in rd.flatten() {
                let p = ent.path();
                let name = p.file_name().unwrap().to_string_lossy().to_string();
                let data = std::fs::read(&p).unwrap_or_default();
                let fs = eval(target, &data, id, &known);
                if let Some(f0) = fs.first() {
                    if found.iter().any(|x: &Found| x.sig == f0.sig) {
                        continue;
                    }
                    let min = minimise(target, &data, id, &f0.sig, &known);
                    let again = eval(target, &min, id, &known);
                    let best = again.into_iter().find(|x| x.sig == f0.sig).unwrap_or_else(|| f0.clone());
                    found.push(best);
                } else {
                    stray.push(name);
                }
            }
        }
    }
    let inconclusive = timed_out || (!stray.is_empty() && found.is_empty());
    let stats = json!({
        "engine": "libFuzzer (cargo-fuzz, sancov + ASan, oracle in-target)",
        "target": target,
        "processes": procs,
        "runs_per_process": runs,
        "executions": execs,
        "coverage_edges": cov,
        "features": ft,
        "corpus_entries": corp,
        "process_exit_codes": exit_codes.iter().map(|(i, c)| json!([i, c])).collect::<Vec<_>>(),
        "artifacts_not_reproduced": stray,
        "timed_out": timed_out,
        "wall_s": t0.elapsed().as_secs_f64(),
        "corpora": "process 0 starts from an empty corpus; the others from reference-encoded valid packets",
    });
    CampaignResult { available: true, note: String::new(), stats, found, inconclusive }
}
