//! The oracle: reference encoder, reference decoder and reference endpoint,
//! written from the property statements and the DSP0236/DSP0237 layouts.
//! Nothing in this file calls or copies libmctp, bitfield or smbus-pec.

use crate::calls::*;
use crate::crc::crc8;

// ---------------------------------------------------------------------------
// Frame construction

/// Build a complete MCTP-over-SMBus packet.
/// `[dst7<<1, 0x0F, N, src7<<1|1, ver, dest_eid, src_eid, flags, type, body.., PEC]`
pub fn build_packet(
    dst7: u8,
    src7: u8,
    dest_eid: u8,
    src_eid: u8,
    flags: u8,
    type_byte: u8,
    body: &[u8],
) -> Vec<u8> {
    let mut v = Vec::with_capacity(body.len() + 10);
    v.push((dst7 & 0x7F) << 1);
    v.push(0x0F);
    v.push((6 + body.len()) as u8);
    v.push(((src7 & 0x7F) << 1) | 1);
    v.push(0x01);
    v.push(dest_eid);
    v.push(src_eid);
    v.push(flags);
    v.push(type_byte);
    v.extend_from_slice(body);
    let p = crc8(&v);
    v.push(p);
    v
}

/// A control request `[.. 0x00, 0x80|iid, cmd, data.., PEC]` with flags 0xC8.
pub fn build_control_request(
    dst7: u8,
    src7: u8,
    dest_eid: u8,
    src_eid: u8,
    iid: u8,
    cmd: u8,
    data: &[u8],
) -> Vec<u8> {
    let mut body = vec![0x80 | (iid & 0x1F), cmd];
    body.extend_from_slice(data);
    build_packet(dst7, src7, dest_eid, src_eid, 0xC8, 0x00, &body)
}

/// A control response `[.. 0x00, iid, cmd, cc, data.., PEC]`.
pub fn build_control_response(
    dst7: u8,
    src7: u8,
    dest_eid: u8,
    src_eid: u8,
    iid: u8,
    cmd: u8,
    cc: u8,
    data: &[u8],
) -> Vec<u8> {
    let mut body = vec![iid & 0x1F, cmd, cc];
    body.extend_from_slice(data);
    build_packet(dst7, src7, dest_eid, src_eid, 0xC0, 0x00, &body)
}

/// Recompute the PEC of a packet in place (last byte).
pub fn fix_pec(p: &mut [u8]) {
    if let Some((last, rest)) = p.split_last_mut() {
        *last = crc8(rest);
    }
}

// ---------------------------------------------------------------------------
// Reference encoder

#[derive(Clone, Debug, PartialEq, Eq)]
pub struct RefPacket {
    pub type_byte: u8,
    /// bytes after the message-type byte (offset 9 onwards), PEC excluded
    pub body: Vec<u8>,
    /// false for non-Success responses: only `body` as a *prefix* is
    /// specified (control byte, command, completion code)
    pub exact: bool,
    pub response: bool,
}

#[derive(Clone, Debug, PartialEq, Eq)]
pub enum RefEnc {
    /// documented-invalid argument or message too large for the byte count:
    /// the encoder must return Err(()) and leave the buffer untouched
    Refuse(&'static str),
    Packet(RefPacket),
}

/// Largest number of bytes after the message-type byte that fits the one
/// byte SMBus byte count: N = 6 + |body| <= 255.
pub const MAX_BODY: usize = 249;

fn req(code: u8, params: &[u8]) -> RefEnc {
    let mut body = vec![0x80, code];
    body.extend_from_slice(params);
    RefEnc::Packet(RefPacket { type_byte: 0x00, body, exact: true, response: false })
}

fn resp(code: u8, cc: u8, fields: &[u8]) -> RefEnc {
    let mut body = vec![0x00, code, cc];
    if cc == 0 {
        body.extend_from_slice(fields);
        RefEnc::Packet(RefPacket { type_byte: 0x00, body, exact: true, response: true })
    } else {
        RefEnc::Packet(RefPacket { type_byte: 0x00, body, exact: false, response: true })
    }
}

fn raw(type_byte: u8, header: &Option<Vec<u8>>, data: &[u8], response: bool) -> RefEnc {
    let mut body = Vec::new();
    if let Some(h) = header {
        body.extend_from_slice(h);
    }
    body.extend_from_slice(data);
    if body.len() > MAX_BODY {
        return RefEnc::Refuse("message too large for the SMBus byte count");
    }
    RefEnc::Packet(RefPacket { type_byte, body, exact: true, response })
}

/// What encoder `call` must produce on a context whose response half stores
/// `eid_resp`.
pub fn ref_encode(call: &EncCall, eid_resp: u8) -> RefEnc {
    use EncCall::*;
    match call {
        ReqSetEndpointId { op, eid } => {
            if *eid == 0x00 || *eid == 0xFF {
                RefEnc::Refuse("reserved EID in Set Endpoint ID")
            } else {
                req(0x01, &[SET_EID_OPS[*op as usize], *eid])
            }
        }
        ReqGetEndpointId => req(0x02, &[]),
        ReqGetEndpointUuid => req(0x03, &[]),
        ReqGetVersion { query } => req(0x04, &[VERSION_QUERIES[*query as usize]]),
        ReqGetMsgTypes => req(0x05, &[]),
        ReqGetVendorSupport { sel } => req(0x06, &[*sel]),
        ReqResolveEid { eid } => req(0x07, &[*eid]),
        ReqAllocateEids { op, pool, start } => req(0x08, &[ALLOC_OPS[*op as usize], *pool, *start]),
        ReqRoutingUpdate { entries } => {
            if entries.len() >= 8 {
                RefEnc::Refuse("more routing entries than fit")
            } else {
                let mut p = vec![entries.len() as u8];
                for e in entries {
                    p.extend_from_slice(e);
                }
                req(0x09, &p)
            }
        }
        ReqGetRoutingTable { handle } => req(0x0A, &[*handle]),
        ReqPrepareDiscovery => req(0x0B, &[]),
        ReqEndpointDiscovery => req(0x0C, &[]),
        ReqDiscoveryNotify => req(0x0D, &[]),
        ReqGetNetworkId => req(0x0E, &[]),
        ReqQueryHop { eid, mt } => req(0x0F, &[*eid, MSG_TYPES[*mt as usize]]),
        ReqResolveUuid { uuid, handle } => {
            let mut p = uuid.to_vec();
            p.push(*handle);
            req(0x10, &p)
        }
        ReqQueryRateLimit => req(0x11, &[]),
        ReqVendor { format, data, msg, .. } => match format {
            0 => {
                let h = vec![(*data >> 8) as u8, *data as u8];
                raw(0x7E, &Some(h), msg, false)
            }
            1 => {
                let h = vec![(*data >> 24) as u8, (*data >> 16) as u8, (*data >> 8) as u8, *data as u8];
                raw(0x7F, &Some(h), msg, false)
            }
            _ => RefEnc::Refuse("vendor ID format other than PCI or IANA"),
        },
        TraitControl { half, header, data } => raw(0x00, header, data, *half == Half::Resp),
        TraitPci { half, header, data } => raw(0x7E, header, data, *half == Half::Resp),
        TraitIana { half, header, data } => raw(0x7F, header, data, *half == Half::Resp),
        TraitSpdm { half, secured, header, data } => {
            raw(if *secured { 0x06 } else { 0x05 }, header, data, *half == Half::Resp)
        }
        // the writer is handed a MessageType variant: integrity bit clear, 7-bit type
        TraitTyped { half, mt, data } => raw(MSG_TYPES[*mt as usize] & 0x7F, &None, data, *half == Half::Resp),
        RespSetEndpointId { cc, assign, alloc } => resp(
            0x01,
            *cc,
            &[(ASSIGN_STATUS[*assign as usize] << 4) | ALLOC_STATUS[*alloc as usize], eid_resp, 0x00],
        ),
        RespGetEndpointId { cc, etype, idtype, fairness } => resp(
            0x02,
            *cc,
            &[eid_resp, (EP_TYPES[*etype as usize] << 4) | EP_ID_TYPES[*idtype as usize], *fairness as u8],
        ),
        RespUuid { cc, uuid } => resp(0x03, *cc, uuid),
        RespVersion { cc } => resp(0x04, *cc, &[0x01, 0xF1, 0xF3, 0xF1, 0x00]),
        RespMsgTypes { cc, types } => {
            if types.len() > 30 {
                RefEnc::Refuse("more than 30 message types")
            } else {
                let mut f = vec![types.len() as u8];
                f.extend_from_slice(types);
                resp(0x05, *cc, &f)
            }
        }
        RespVendorSupport { cc, selector, vendor_id } => {
            let mut f = vec![*selector];
            f.extend_from_slice(vendor_id);
            resp(0x06, *cc, &f)
        }
    }
}

/// The full expected frame for an exact RefPacket sent from `src` to `dest`.
/// Byte 7 (flags) is 0xC8; for responses only its upper nibble is demanded.
pub fn ref_frame(p: &RefPacket, src: u8, dest: u8) -> Vec<u8> {
    build_packet(dest, src, dest, src, 0xC8, p.type_byte, &p.body)
}

// ---------------------------------------------------------------------------
// Reference decoder

pub fn req_fixed_len(cmd: u8) -> Option<usize> {
    match cmd {
        0x01 => Some(2),
        0x04 => Some(1),
        0x06 => Some(1),
        0x07 => Some(1),
        0x08 => Some(3),
        _ => None,
    }
}

/// `Some(None)`: no fixed length; `Some(Some(n))`: fixed length n;
/// `None`: outside the claim (Get Endpoint ID, Allocate Endpoint IDs,
/// Routing Information Update responses).
pub fn resp_fixed_len(cmd: u8) -> Option<Option<usize>> {
    match cmd {
        0x01 => Some(Some(3)),
        0x03 => Some(Some(16)),
        0x04 => Some(Some(5)),
        0x02 | 0x08 | 0x09 => None,
        _ => Some(None),
    }
}

pub fn type_supported(t: u8) -> bool {
    matches!(t, 0x00 | 0x05 | 0x06 | 0x7E | 0x7F)
}

#[derive(Clone, Debug, PartialEq, Eq)]
pub enum Verdict {
    /// must be accepted with this type and payload range
    Accept { ty: u8, start: usize, end: usize },
    /// must be rejected (some error)
    Reject,
    /// outside the claim: any rejection is fine, acceptance is not
    AnyReject(&'static str),
    /// length rule outside the claim: accept with this range, or reject with
    /// a length error
    AcceptOrLenReject { ty: u8, start: usize, end: usize },
}

#[derive(Clone, Debug)]
pub struct Facts {
    pub n: usize,
    pub hdr_ok: bool,
    pub type_ok: bool,
    pub ty: u8,
    pub pec_ok: bool,
    pub control: bool,
    pub rq: bool,
    pub cmd: u8,
    /// completion code of a control response (n >= 13)
    pub cc: Option<u8>,
    pub len_wrong: bool,
    pub verdict: Verdict,
}

pub fn ref_decode(b: &[u8]) -> Facts {
    let n = b.len();
    let mut f = Facts {
        n,
        hdr_ok: false,
        type_ok: false,
        ty: 0xFF,
        pec_ok: false,
        control: false,
        rq: false,
        cmd: 0,
        cc: None,
        len_wrong: false,
        verdict: Verdict::Reject,
    };
    if n >= 1 {
        f.pec_ok = b[n - 1] == crc8(&b[..n - 1]);
    }
    if n < 10 {
        f.verdict = Verdict::AnyReject("shorter than headers + PEC");
        return f;
    }
    f.hdr_ok = b[4] == 0x01;
    f.type_ok = type_supported(b[8]);
    f.ty = b[8];
    if !f.hdr_ok || !f.type_ok {
        f.verdict = Verdict::Reject;
        return f;
    }
    if b[8] != 0x00 {
        f.verdict = if f.pec_ok {
            Verdict::Accept { ty: b[8], start: 9, end: n - 1 }
        } else {
            Verdict::Reject
        };
        return f;
    }
    f.control = true;
    if n < 12 {
        f.verdict = Verdict::AnyReject("control message shorter than its header + PEC");
        return f;
    }
    f.rq = b[9] & 0x80 != 0;
    f.cmd = b[10];
    if f.rq {
        let dl = n - 12;
        if let Some(l) = req_fixed_len(f.cmd) {
            f.len_wrong = dl != l;
        }
        f.verdict = if f.pec_ok && !f.len_wrong {
            Verdict::Accept { ty: 0, start: 11, end: n - 1 }
        } else {
            Verdict::Reject
        };
        return f;
    }
    if n < 13 {
        f.verdict = Verdict::AnyReject("control response shorter than header + completion code + PEC");
        return f;
    }
    let cc = b[11];
    f.cc = Some(cc);
    if cc > 5 {
        f.verdict = Verdict::AnyReject("undefined completion code (C10 finding class)");
        return f;
    }
    if cc != 0 {
        f.verdict = Verdict::Reject;
        return f;
    }
    let dl = n - 13;
    match resp_fixed_len(f.cmd) {
        Some(Some(l)) => {
            f.len_wrong = dl != l;
            f.verdict = if f.pec_ok && !f.len_wrong {
                Verdict::Accept { ty: 0, start: 12, end: n - 1 }
            } else {
                Verdict::Reject
            };
        }
        Some(None) => {
            f.verdict = if f.pec_ok {
                Verdict::Accept { ty: 0, start: 12, end: n - 1 }
            } else {
                Verdict::Reject
            };
        }
        None => {
            f.verdict = if f.pec_ok {
                Verdict::AcceptOrLenReject { ty: 0, start: 12, end: n - 1 }
            } else {
                Verdict::Reject
            };
        }
    }
    f
}

// ---------------------------------------------------------------------------
// Reference endpoint (responder model for C12..C15)

#[derive(Clone, Debug)]
pub struct RefEndpoint {
    pub cfg: CtxCfg,
    pub eid_req: u8,
    pub eid_resp: u8,
    pub uuid: [u8; 16],
}

/// What the model demands of the response to one accepted control request.
#[derive(Clone, Debug, PartialEq, Eq)]
pub enum RespDemand {
    /// nothing beyond general well-formedness is demanded
    Unspecified,
    /// completion code and exact data bytes after it
    Exact { cc: u8, data: Vec<u8> },
    /// completion code only
    Cc(u8),
    /// Set EID accepted: cc 0, status bits 5:4 == 0, EID setting == eid
    Assigned { eid: u8 },
    /// Get EID: cc 0, first data byte == eid
    Eid { eid: u8 },
}

impl RefEndpoint {
    pub fn new(cfg: &CtxCfg) -> Self {
        RefEndpoint { cfg: cfg.clone(), eid_req: 0, eid_resp: 0, uuid: [0; 16] }
    }

    /// Expected vendor ID field for set `i` (format, id MSB first, numeric MSB first).
    pub fn vendor_field(&self, i: usize) -> Vec<u8> {
        let (format, data, num) = self.cfg.vendors[i];
        let mut v = vec![format];
        if format == 0 {
            v.push((data >> 8) as u8);
            v.push(data as u8);
        } else {
            v.push((data >> 24) as u8);
            v.push((data >> 16) as u8);
            v.push((data >> 8) as u8);
            v.push(data as u8);
        }
        v.push((num >> 8) as u8);
        v.push(num as u8);
        v
    }

    /// Apply an *accepted* control request (by the reference decoder) that was
    /// handed to process_packet; update the model and say what the response
    /// must look like.
    pub fn on_request(&mut self, cmd: u8, data: &[u8]) -> RespDemand {
        match cmd {
            0x01 => {
                // data length is 2 (fixed)
                let op = data[0];
                let eid = data[1];
                match op {
                    0 | 1 => {
                        self.eid_req = eid;
                        self.eid_resp = eid;
                        RespDemand::Assigned { eid }
                    }
                    3 => RespDemand::Cc(0x02),
                    _ => RespDemand::Unspecified,
                }
            }
            0x02 => RespDemand::Eid { eid: self.eid_resp },
            0x03 => RespDemand::Exact { cc: 0, data: self.uuid.to_vec() },
            0x04 => RespDemand::Exact { cc: 0, data: vec![0x01, 0xF1, 0xF3, 0xF1, 0x00] },
            0x05 => {
                if self.cfg.msg_types.len() <= 30 {
                    let mut d = vec![self.cfg.msg_types.len() as u8];
                    d.extend_from_slice(&self.cfg.msg_types);
                    RespDemand::Exact { cc: 0, data: d }
                } else {
                    RespDemand::Unspecified
                }
            }
            0x06 => {
                let i = data[0] as usize;
                let n = self.cfg.vendors.len();
                if i < n && self.cfg.vendors[i].0 <= 1 {
                    let next = if i + 1 == n { 0xFF } else { (i + 1) as u8 };
                    let mut d = vec![next];
                    d.extend_from_slice(&self.vendor_field(i));
                    RespDemand::Exact { cc: 0, data: d }
                } else {
                    RespDemand::Unspecified
                }
            }
            _ => RespDemand::Unspecified,
        }
    }
}

/// General well-formedness of a response `r` (C12) to a request whose source
/// EID / SMBus source address is `s` (7-bit), instance id `iid`, command `cmd`,
/// produced by a responder with address `a` (7-bit).
/// Returns a list of (signature suffix, explanation).
pub fn check_response_frame(r: &[u8], s: u8, a: u8, iid: u8, cmd: u8) -> Vec<(String, String)> {
    let mut out = Vec::new();
    let n = r.len();
    if n < 13 {
        out.push(("short".into(), format!("response of {} bytes cannot hold headers, completion code and PEC", n)));
        return out;
    }
    let mut chk = |name: &str, got: u8, want: u8| {
        if got != want {
            out.push((name.to_string(), format!("{}: got {:#04x}, want {:#04x}", name, got, want)));
        }
    };
    chk("dst_addr", r[0], (s & 0x7F) << 1);
    chk("smbus_cmd", r[1], 0x0F);
    chk("byte_count", r[2], (n - 4) as u8);
    chk("src_addr", r[3], ((a & 0x7F) << 1) | 1);
    chk("hdr_version", r[4], 0x01);
    chk("dest_eid", r[5], s);
    chk("src_eid", r[6], a);
    chk("som_eom_seq", r[7] & 0xF0, 0xC0);
    chk("msg_type", r[8], 0x00);
    chk("rq_bit", r[9] & 0x80, 0x00);
    chk("instance_id", r[9] & 0x1F, iid & 0x1F);
    chk("command", r[10], cmd);
    chk("pec", r[n - 1], crc8(&r[..n - 1]));
    out
}

/// Self-check of the reference model against the golden packets asserted in
/// the repository's own tests.
pub fn self_check() -> Result<(), String> {
    // spdm golden packet 1 is accepted with payload [9..13)
    let g1: [u8; 14] = [
        0x44, 0x0f, 0x0a, 0x69, 0x01, 0x22, 0x34, 0xc8, 0x05, 0x10, 0x84, 0x00, 0x00, 0x9c,
    ];
    match ref_decode(&g1).verdict {
        Verdict::Accept { ty: 0x05, start: 9, end: 13 } => {}
        v => return Err(format!("ref_decode golden 1: {:?}", v)),
    }
    // the reference decoder accepts what the reference encoder emits
    let p = build_control_request(0x23, 0x34, 0x23, 0x34, 0, 0x01, &[0x00, 0x56]);
    if p != vec![0x46, 0x0f, 0x0a, 0x69, 0x01, 0x23, 0x34, 0xc8, 0x00, 0x80, 0x01, 0x00, 0x56, crc8(&p[..13])] {
        return Err("build_control_request layout".into());
    }
    match ref_decode(&p).verdict {
        Verdict::Accept { ty: 0, start: 11, end: 13 } => {}
        v => return Err(format!("ref_decode set eid request: {:?}", v)),
    }
    let r = build_control_response(0x34, 0x23, 0x34, 0x23, 0, 0x04, 0, &[1, 0xF1, 0xF3, 0xF1, 0]);
    match ref_decode(&r).verdict {
        Verdict::Accept { ty: 0, start: 12, end: 17 } => {}
        v => return Err(format!("ref_decode version response: {:?}", v)),
    }
    // reference encoder vs. bytes pinned by the repository's tests
    match ref_encode(&EncCall::RespVersion { cc: 0 }, 0) {
        RefEnc::Packet(pk) => {
            let fr = ref_frame(&pk, 0x23, 0x34);
            if fr.len() != 18 || fr[2] != 14 || fr[12..17] != [1, 0xF1, 0xF3, 0xF1, 0] {
                return Err("ref_encode version response".into());
            }
        }
        _ => return Err("ref_encode version response refused".into()),
    }
    Ok(())
}
