//! Thin, panic-trapping wrappers around libmctp's public API.  This is the only
//! module (besides c18/c19, which exercise header views and conversions
//! directly) that touches the library.

use crate::calls::*;
use libmctp::base_packet::MessageType;
use libmctp::control_packet::*;
use libmctp::errors::{ControlMessageError, DecodeError};
use libmctp::mctp_traits::SMBusMCTPRequestResponse;
use libmctp::smbus::MCTPSMBusContext;
use libmctp::smbus_proto::SMBusRoutingInformationUpdateEntry;
use libmctp::vendor_packets::VendorIDFormat;
use std::cell::RefCell;
use std::panic::{catch_unwind, AssertUnwindSafe};

thread_local! {
    static LAST_PANIC: RefCell<Option<String>> = const { RefCell::new(None) };
}

/// Install a silent panic hook that records message and location per thread.
pub fn install_panic_hook() {
    std::panic::set_hook(Box::new(|info| {
        let msg = if let Some(s) = info.payload().downcast_ref::<&str>() {
            s.to_string()
        } else if let Some(s) = info.payload().downcast_ref::<String>() {
            s.clone()
        } else {
            "<non-string panic>".to_string()
        };
        let loc = info
            .location()
            .map(|l| format!("{}:{}", l.file(), l.line()))
            .unwrap_or_default();
        LAST_PANIC.with(|p| *p.borrow_mut() = Some(format!("{} @ {}", msg, loc)));
    }));
}

/// Run `f`, turning a panic into `Err(description)`.
pub fn trap<T>(f: impl FnOnce() -> T) -> Result<T, String> {
    match catch_unwind(AssertUnwindSafe(f)) {
        Ok(v) => Ok(v),
        Err(_) => Err(LAST_PANIC
            .with(|p| p.borrow_mut().take())
            .unwrap_or_else(|| "<panic>".to_string())),
    }
}

/// Coarse classification of a panic message (used in failure signatures so
/// that they do not depend on line numbers).
pub fn panic_kind(msg: &str) -> &'static str {
    if msg.contains("not implemented") {
        "unimplemented"
    } else if msg.contains("unreachable") {
        "unreachable"
    } else if msg.contains("overflow") {
        "overflow"
    } else if msg.contains("out of range") || msg.contains("out of bounds") || msg.contains("index")
    {
        "index"
    } else if msg.contains("unwrap") {
        "unwrap"
    } else if msg.contains("copy_from_slice") || msg.contains("length mismatch") {
        "length_mismatch"
    } else {
        "other"
    }
}

pub fn mt_u8(m: &MessageType) -> u8 {
    match m {
        MessageType::MCtpControl => 0x00,
        MessageType::SpdmOverMctp => 0x05,
        MessageType::SecuredMessages => 0x06,
        MessageType::VendorDefinedPCI => 0x7E,
        MessageType::VendorDefinedIANA => 0x7F,
        MessageType::Invalid => 0xFF,
    }
}

pub fn mt_from_idx(i: u8) -> MessageType {
    match i {
        0 => MessageType::MCtpControl,
        1 => MessageType::SpdmOverMctp,
        2 => MessageType::SecuredMessages,
        3 => MessageType::VendorDefinedPCI,
        4 => MessageType::VendorDefinedIANA,
        _ => MessageType::Invalid,
    }
}

pub fn cc_from(i: u8) -> CompletionCode {
    match i {
        0 => CompletionCode::Success,
        1 => CompletionCode::Error,
        2 => CompletionCode::ErrorInvalidData,
        3 => CompletionCode::ErrorInvalidLength,
        4 => CompletionCode::ErrorNotReady,
        _ => CompletionCode::ErrorUnsupportedCmd,
    }
}

fn cc_u8(c: &CompletionCode) -> u8 {
    match c {
        CompletionCode::Success => 0,
        CompletionCode::Error => 1,
        CompletionCode::ErrorInvalidData => 2,
        CompletionCode::ErrorInvalidLength => 3,
        CompletionCode::ErrorNotReady => 4,
        CompletionCode::ErrorUnsupportedCmd => 5,
    }
}

/// Error kinds of the decoder, as plain data.
#[derive(Clone, Debug, PartialEq, Eq, Hash)]
pub enum ErrK {
    Unknown,
    CmUnknown,
    BadLen,
    BadCtrlHdr,
    Unsuccessful(u8),
    BadPec,
}

fn errk(e: &DecodeError) -> ErrK {
    match e {
        DecodeError::Unknown => ErrK::Unknown,
        DecodeError::ControlMessage(c) => match c {
            ControlMessageError::Unknown => ErrK::CmUnknown,
            ControlMessageError::InvalidRequestDataLength => ErrK::BadLen,
            ControlMessageError::InvalidControlHeader => ErrK::BadCtrlHdr,
            ControlMessageError::UnsuccessfulCompletionCode(cc) => ErrK::Unsuccessful(cc_u8(cc)),
            ControlMessageError::InvalidPEC => ErrK::BadPec,
        },
    }
}

/// Outcome of decode_packet, projected to plain data.  `start` is the offset
/// of the payload slice inside the input (by address), `len` its length.
#[derive(Clone, Debug, PartialEq, Eq, Hash)]
pub enum Dec {
    Ok { ty: u8, start: usize, len: usize },
    Err { ty: u8, err: ErrK },
    Panic(String),
}

impl Dec {
    pub fn is_ok(&self) -> bool {
        matches!(self, Dec::Ok { .. })
    }
    pub fn is_panic(&self) -> bool {
        matches!(self, Dec::Panic(_))
    }
    pub fn brief(&self) -> String {
        match self {
            Dec::Ok { ty, start, len } => format!("Ok(type={:#04x}, payload=[{}..{}))", ty, start, start + len),
            Dec::Err { ty, err } => format!("Err(type={:#04x}, {:?})", ty, err),
            Dec::Panic(m) => format!("PANIC({})", m),
        }
    }
}

fn project<'a>(
    input: &'a [u8],
    r: Result<(MessageType, &'a [u8]), (MessageType, DecodeError)>,
) -> Dec {
    match r {
        Ok((t, p)) => {
            let base = input.as_ptr() as usize;
            let pp = p.as_ptr() as usize;
            // a payload that is not a sub-slice of the input gets start = usize::MAX
            let start = if pp >= base && pp + p.len() <= base + input.len() {
                pp - base
            } else {
                usize::MAX
            };
            Dec::Ok { ty: mt_u8(&t), start, len: p.len() }
        }
        Err((t, e)) => Dec::Err { ty: mt_u8(&t), err: errk(&e) },
    }
}

/// Owned storage from which a context borrowing it can be built.
pub struct CtxStore {
    pub addr: u8,
    pub msg_types: Vec<u8>,
    pub vendors: Vec<VendorIDFormat>,
}

impl CtxStore {
    pub fn new(cfg: &CtxCfg) -> Self {
        CtxStore {
            addr: cfg.addr,
            msg_types: cfg.msg_types.clone(),
            vendors: cfg
                .vendors
                .iter()
                .map(|&(format, data, numeric_value)| VendorIDFormat { format, data, numeric_value })
                .collect(),
        }
    }
    pub fn ctx(&self) -> MCTPSMBusContext<'_> {
        MCTPSMBusContext::new(self.addr, &self.msg_types, &self.vendors)
    }
}

// ---------------------------------------------------------------------------
// Cross-context noise.  Nothing in the properties allows one context's
// behaviour to depend on another context's existence or traffic; state that
// ought to live in a context but is kept in a `static` would make it so.  For
// one case in sixteen (decided by the engine from the case's hash, so replay is
// deterministic) every wrapped library call on the context under test is
// preceded by a small history on a *foreign*, freshly created context.  The
// oracle knows nothing about this traffic.

thread_local! {
    static NOISE: std::cell::Cell<Option<u64>> = const { std::cell::Cell::new(None) };
    static NOISE_TICK: std::cell::Cell<u64> = const { std::cell::Cell::new(0) };
    static NOISE_CALLS: std::cell::Cell<u64> = const { std::cell::Cell::new(0) };
}

pub fn set_noise(v: Option<u64>) {
    NOISE.with(|n| n.set(v));
    NOISE_TICK.with(|n| n.set(0));
}

/// Number of foreign-context histories run by this thread so far.
pub fn noise_calls() -> u64 {
    NOISE_CALLS.with(|n| n.get())
}

fn noise_tick() {
    let h = match NOISE.with(|n| n.get()) {
        Some(h) => h,
        None => return,
    };
    let k = NOISE_TICK.with(|n| {
        let v = n.get();
        n.set(v + 1);
        v
    });
    NOISE_CALLS.with(|n| n.set(n.get() + 1));
    let x = h.rotate_left((k as u32 * 7) & 63) ^ k.wrapping_mul(0x9E37_79B9_7F4A_7C15);
    let b = |i: u32| (x >> (8 * (i & 7))) as u8;
    let _ = trap(|| {
        let addr = b(0) & 0x7F;
        let types = [0x7Eu8, 0x7F, 0x05, b(1)];
        let vendors = [
            VendorIDFormat { format: 1, data: 0xA1B2_C3D4 ^ (x as u32), numeric_value: b(2) as u16 },
            VendorIDFormat { format: 0, data: 0x8086, numeric_value: 0x0001 },
        ];
        let mut f = MCTPSMBusContext::new(addr, &types, &vendors);
        let mut buf = [0u8; 96];
        let eid = (b(3) | 1) & 0xFE;
        let set = crate::refmodel::build_control_request(addr, 0x22, addr, 0x22, b(4) & 0x1F, 0x01, &[k as u8 & 1, eid]);
        let _ = f.process_packet(&set, &mut buf);
        if k & 1 == 0 {
            f.set_uuid(&[b(5); 16]);
            let mut bad = crate::refmodel::build_control_request(addr, 0x22, addr, 0x22, 1, 0x02, &[]);
            let n = bad.len();
            bad[n - 1] ^= 0x5A;
            let _ = f.decode_packet(&bad);
            let get = crate::refmodel::build_control_request(addr, 0x22, addr, 0x22, 2, 0x06, &[1]);
            let _ = f.process_packet(&get, &mut buf);
            let _ = f.get_length(&[b(6), 0x0F, b(7), 0x45]);
        } else {
            let v = VendorIDFormat { format: b(5) & 1, data: x as u32, numeric_value: 7 };
            let _ = f.get_request().vendor_defined(b(6), &v, &[b(7), 0x0F, 0x00], &mut buf);
            let _ = f.get_request().get_endpoint_id(b(6) ^ 0x80, &mut buf);
            let _ = f.get_response().get_endpoint_uuid(CompletionCode::Success, b(6), &[b(1); 16], &mut buf);
            let resp = crate::refmodel::build_control_response(addr, 0x22, addr, 0x22, 0, 0x02, 0, &[eid, 0, 0, 0]);
            let _ = f.process_packet(&resp, &mut buf);
            f.get_request().set_eid(b(2));
        }
    });
}

pub fn decode(ctx: &MCTPSMBusContext, bytes: &[u8]) -> Dec {
    noise_tick();
    match trap(|| project(bytes, ctx.decode_packet(bytes))) {
        Ok(d) => d,
        Err(m) => Dec::Panic(m),
    }
}

#[derive(Clone, Debug, PartialEq, Eq, Hash)]
pub struct Proc {
    pub dec: Dec,
    pub resp: Option<usize>,
}

pub fn process(ctx: &MCTPSMBusContext, bytes: &[u8], buf: &mut [u8]) -> Proc {
    noise_tick();
    match trap(|| match ctx.process_packet(bytes, buf) {
        Ok(((t, p), n)) => Proc { dec: project(bytes, Ok((t, p))), resp: n },
        Err(e) => Proc { dec: project(bytes, Err(e)), resp: None },
    }) {
        Ok(p) => p,
        Err(m) => Proc { dec: Dec::Panic(m), resp: None },
    }
}

#[derive(Clone, Debug, PartialEq, Eq, Hash)]
pub enum Len {
    Ok(usize),
    Err { ty: u8, err: ErrK },
    Panic(String),
}

pub fn get_length(ctx: &MCTPSMBusContext, bytes: &[u8]) -> Len {
    noise_tick();
    match trap(|| match ctx.get_length(bytes) {
        Ok(n) => Len::Ok(n),
        Err((t, e)) => Len::Err { ty: mt_u8(&t), err: errk(&e) },
    }) {
        Ok(l) => l,
        Err(m) => Len::Panic(m),
    }
}

#[derive(Clone, Debug, PartialEq, Eq, Hash)]
pub enum Enc {
    Ok(usize),
    Err,
    Panic(String),
}

fn set_eid_op(i: u8) -> MCTPSetEndpointIDOperations {
    match i {
        0 => MCTPSetEndpointIDOperations::SetEID,
        1 => MCTPSetEndpointIDOperations::ForceEID,
        2 => MCTPSetEndpointIDOperations::ResetEID,
        _ => MCTPSetEndpointIDOperations::SetDiscoveredFlag,
    }
}
fn version_query(i: u8) -> MCTPVersionQuery {
    match i {
        0 => MCTPVersionQuery::MCTPBaseSpec,
        1 => MCTPVersionQuery::MCTPControlProcMessage,
        2 => MCTPVersionQuery::DSP0241,
        3 => MCTPVersionQuery::DSP0261,
        _ => MCTPVersionQuery::DSP0261_2,
    }
}
fn alloc_op(i: u8) -> AllocateEndpointIDOperation {
    match i {
        0 => AllocateEndpointIDOperation::AllocateEIDs,
        1 => AllocateEndpointIDOperation::ForceAllocation,
        _ => AllocateEndpointIDOperation::GetAllocationInformation,
    }
}
fn assign_status(i: u8) -> MCTPSetEndpointIDAssignmentStatus {
    match i {
        0 => MCTPSetEndpointIDAssignmentStatus::Accpeted,
        _ => MCTPSetEndpointIDAssignmentStatus::Rejected,
    }
}
fn alloc_status(i: u8) -> MCTPSetEndpointIDAllocationStatus {
    match i {
        0 => MCTPSetEndpointIDAllocationStatus::NoIDPool,
        1 => MCTPSetEndpointIDAllocationStatus::RequiresAllocation,
        _ => MCTPSetEndpointIDAllocationStatus::AlreadyAllocated,
    }
}
fn ep_type(i: u8) -> MCTPGetEndpointIDEndpointType {
    match i {
        0 => MCTPGetEndpointIDEndpointType::Simple,
        _ => MCTPGetEndpointIDEndpointType::Bus,
    }
}
fn ep_id_type(i: u8) -> MCTPGetEndpointIDEndpointIDType {
    match i {
        0 => MCTPGetEndpointIDEndpointIDType::DynamicEID,
        1 => MCTPGetEndpointIDEndpointIDType::StaticEID,
        2 => MCTPGetEndpointIDEndpointIDType::StaticPresentMatchEID,
        _ => MCTPGetEndpointIDEndpointIDType::StaticPresentNoMatchEID,
    }
}

fn trait_call<T: SMBusMCTPRequestResponse>(
    h: &T,
    which: u8,
    secured: bool,
    dest: u8,
    header: &Option<Vec<u8>>,
    data: &[u8],
    buf: &mut [u8],
) -> Result<usize, ()> {
    let hdr: Option<&[u8]> = header.as_deref();
    match which {
        0 => h.generate_control_packet_bytes(dest, &hdr, data, buf),
        1 => h.generate_pci_msg_packet_bytes(dest, &hdr, data, buf),
        2 => h.generate_iana_msg_packet_bytes(dest, &hdr, data, buf),
        _ => h.generate_spdm_msg_packet_bytes(
            dest,
            if secured { MessageType::SecuredMessages } else { MessageType::SpdmOverMctp },
            &hdr,
            data,
            buf,
        ),
    }
}

/// Invoke one encoder on `ctx` (no panic trapping here).
pub fn encode_raw(ctx: &MCTPSMBusContext, call: &EncCall, dest: u8, buf: &mut [u8]) -> Result<usize, ()> {
    use EncCall::*;
    let rq = ctx.get_request();
    let rs = ctx.get_response();
    match call {
        ReqSetEndpointId { op, eid } => rq.set_endpoint_id(dest, set_eid_op(*op), *eid, buf),
        ReqGetEndpointId => rq.get_endpoint_id(dest, buf),
        ReqGetEndpointUuid => rq.get_endpoint_uuid(dest, buf),
        ReqGetVersion { query } => rq.get_mctp_version_support(dest, version_query(*query), buf),
        ReqGetMsgTypes => rq.get_message_type_suport(dest, buf),
        ReqGetVendorSupport { sel } => rq.get_vendor_defined_message_support(dest, *sel, buf),
        ReqResolveEid { eid } => rq.resolve_endpoint_id(dest, *eid, buf),
        ReqAllocateEids { op, pool, start } => {
            rq.allocate_endpoint_ids(dest, alloc_op(*op), *pool, *start, buf)
        }
        ReqRoutingUpdate { entries } => {
            let es: Vec<SMBusRoutingInformationUpdateEntry<[u8; 4]>> = entries
                .iter()
                .map(|e| SMBusRoutingInformationUpdateEntry::new_from_buf(*e))
                .collect();
            rq.routing_information_update(dest, &es, buf)
        }
        ReqGetRoutingTable { handle } => rq.get_routing_table_entries(dest, *handle, buf),
        ReqPrepareDiscovery => rq.prepare_for_endpoint_discovery(dest, buf),
        ReqEndpointDiscovery => rq.endpoint_discovery(dest, buf),
        ReqDiscoveryNotify => rq.discovery_notify(dest, buf),
        ReqGetNetworkId => rq.get_network_id(dest, buf),
        ReqQueryHop { eid, mt } => rq.query_hop(dest, *eid, mt_from_idx(*mt), buf),
        ReqResolveUuid { uuid, handle } => rq.resolve_uuid(dest, uuid, *handle, buf),
        ReqQueryRateLimit => rq.query_rate_limit(dest, buf),
        ReqVendor { format, data, numeric, msg } => {
            let f = VendorIDFormat { format: *format, data: *data, numeric_value: *numeric };
            rq.vendor_defined(dest, &f, msg, buf)
        }
        TraitControl { half, header, data } => match half {
            Half::Req => trait_call(rq, 0, false, dest, header, data, buf),
            Half::Resp => trait_call(rs, 0, false, dest, header, data, buf),
        },
        TraitPci { half, header, data } => match half {
            Half::Req => trait_call(rq, 1, false, dest, header, data, buf),
            Half::Resp => trait_call(rs, 1, false, dest, header, data, buf),
        },
        TraitIana { half, header, data } => match half {
            Half::Req => trait_call(rq, 2, false, dest, header, data, buf),
            Half::Resp => trait_call(rs, 2, false, dest, header, data, buf),
        },
        TraitSpdm { half, secured, header, data } => match half {
            Half::Req => trait_call(rq, 3, *secured, dest, header, data, buf),
            Half::Resp => trait_call(rs, 3, *secured, dest, header, data, buf),
        },
        TraitTyped { half, mt, data } => match half {
            Half::Req => rq.generate_spdm_msg_packet_bytes(dest, mt_from_idx(*mt), &None, data, buf),
            Half::Resp => rs.generate_spdm_msg_packet_bytes(dest, mt_from_idx(*mt), &None, data, buf),
        },
        RespSetEndpointId { cc, assign, alloc } => {
            rs.set_endpoint_id(cc_from(*cc), dest, assign_status(*assign), alloc_status(*alloc), buf)
        }
        RespGetEndpointId { cc, etype, idtype, fairness } => rs.get_endpoint_id(
            cc_from(*cc),
            dest,
            ep_type(*etype),
            ep_id_type(*idtype),
            *fairness,
            buf,
        ),
        RespUuid { cc, uuid } => rs.get_endpoint_uuid(cc_from(*cc), dest, uuid, buf),
        RespVersion { cc } => rs.get_mctp_version_support(cc_from(*cc), dest, buf),
        RespMsgTypes { cc, types } => rs.get_message_type_suport(cc_from(*cc), dest, types, buf),
        RespVendorSupport { cc, selector, vendor_id } => {
            rs.get_vendor_defined_message_support(cc_from(*cc), dest, *selector, vendor_id, buf)
        }
    }
}

pub fn encode(ctx: &MCTPSMBusContext, call: &EncCall, dest: u8, buf: &mut [u8]) -> Enc {
    noise_tick();
    match trap(|| encode_raw(ctx, call, dest, buf)) {
        Ok(Ok(n)) => Enc::Ok(n),
        Ok(Err(())) => Enc::Err,
        Err(m) => Enc::Panic(m),
    }
}

pub fn req_eid(ctx: &MCTPSMBusContext) -> u8 {
    noise_tick();
    ctx.get_request().get_eid()
}
pub fn resp_eid(ctx: &MCTPSMBusContext) -> u8 {
    noise_tick();
    ctx.get_response().get_eid()
}
pub fn set_req_eid(ctx: &MCTPSMBusContext, v: u8) {
    ctx.get_request().set_eid(v)
}
pub fn set_resp_eid(ctx: &MCTPSMBusContext, v: u8) {
    ctx.get_response().set_eid(v)
}

/// Build a context for an encoder environment and apply its EID state.
/// Returns Err(description) if installing the EID through process_packet
/// did not work (panic), in which case the caller falls back to accessors.
pub fn apply_env(ctx: &MCTPSMBusContext, env: &EncEnv) {
    if env.eid_via_process {
        // forged Set Endpoint ID request carrying eid_resp, from requester 0x10
        let pkt = crate::refmodel::build_control_request(env.addr & 0x7F, 0x10, env.addr, 0x10, 0, 0x01, &[0x00, env.eid_resp]);
        let mut buf = [0u8; 64];
        let _ = trap(|| {
            let _ = ctx.process_packet(&pkt, &mut buf);
        });
        // whatever happened, make the state what the case says it is
        if resp_eid(ctx) != env.eid_resp || req_eid(ctx) != env.eid_resp {
            set_resp_eid(ctx, env.eid_resp);
            set_req_eid(ctx, env.eid_resp);
        }
    } else {
        set_req_eid(ctx, env.eid_req);
        set_resp_eid(ctx, env.eid_resp);
    }
}

/// Apply one history step; returns a compact observation used for twin
/// comparison (what the step returned and what it wrote).
#[derive(Clone, Debug, PartialEq, Eq)]
pub enum Obs {
    Proc { proc: Proc, buf: Vec<u8> },
    Dec(Dec),
    Len(Len),
    Unit,
    Enc { enc: Enc, buf: Vec<u8> },
}

pub fn apply_op(ctx: &mut MCTPSMBusContext, op: &Op) -> Obs {
    match op {
        Op::Process { bytes, cap, fill } => {
            let mut buf = vec![*fill; *cap as usize];
            let p = process(ctx, bytes, &mut buf);
            Obs::Proc { proc: p, buf }
        }
        Op::Decode { bytes } => Obs::Dec(decode(ctx, bytes)),
        Op::GetLength { bytes } => Obs::Len(get_length(ctx, bytes)),
        Op::SetReqEid(v) => {
            set_req_eid(ctx, *v);
            Obs::Unit
        }
        Op::SetRespEid(v) => {
            set_resp_eid(ctx, *v);
            Obs::Unit
        }
        Op::SetUuid(u) => {
            ctx.set_uuid(&u[..]);
            Obs::Unit
        }
        Op::Encode { call, dest } => {
            let mut buf = vec![0xA5u8; 320];
            let e = encode(ctx, call, *dest, &mut buf);
            Obs::Enc { enc: e, buf }
        }
    }
}
