//! Plain-data descriptions of every library call the checks make.  These are
//! what the generators produce, what is serialised into replay files and what
//! both the SUT wrapper (`sut.rs`) and the reference model (`refmodel.rs`)
//! interpret.  No libmctp types appear here.

use serde::{Deserialize, Serialize};

#[derive(Clone, Copy, Debug, Serialize, Deserialize, PartialEq, Eq, Hash)]
pub enum Half {
    Req,
    Resp,
}

/// Wire values of the enums the encoders take, by index.
pub const SET_EID_OPS: [u8; 4] = [0, 1, 2, 3];
pub const VERSION_QUERIES: [u8; 5] = [0xFF, 0x00, 0x01, 0x02, 0x03];
pub const ALLOC_OPS: [u8; 3] = [0, 1, 2];
pub const MSG_TYPES: [u8; 6] = [0x00, 0x05, 0x06, 0x7E, 0x7F, 0xFF];
pub const ASSIGN_STATUS: [u8; 2] = [0, 1];
pub const ALLOC_STATUS: [u8; 3] = [0, 1, 2];
pub const EP_TYPES: [u8; 2] = [0, 1];
pub const EP_ID_TYPES: [u8; 4] = [0, 1, 2, 3];

/// One invocation of one encoder (all arguments except the destination and
/// the output buffer).  Enum-typed arguments are stored as an index into the
/// tables above.
#[derive(Clone, Debug, Serialize, Deserialize, PartialEq, Eq, Hash)]
pub enum EncCall {
    // ---- the 17 implemented control request encoders
    ReqSetEndpointId { op: u8, eid: u8 },
    ReqGetEndpointId,
    ReqGetEndpointUuid,
    ReqGetVersion { query: u8 },
    ReqGetMsgTypes,
    ReqGetVendorSupport { sel: u8 },
    ReqResolveEid { eid: u8 },
    ReqAllocateEids { op: u8, pool: u8, start: u8 },
    ReqRoutingUpdate { entries: Vec<[u8; 4]> },
    ReqGetRoutingTable { handle: u8 },
    ReqPrepareDiscovery,
    ReqEndpointDiscovery,
    ReqDiscoveryNotify,
    ReqGetNetworkId,
    ReqQueryHop { eid: u8, mt: u8 },
    ReqResolveUuid { uuid: [u8; 16], handle: u8 },
    ReqQueryRateLimit,
    // ---- vendor defined (request half)
    ReqVendor { format: u8, data: u32, numeric: u16, #[serde(with = "hexv")] msg: Vec<u8> },
    // ---- the public trait-level packet writers (either half)
    TraitControl { half: Half, #[serde(with = "hexo")] header: Option<Vec<u8>>, #[serde(with = "hexv")] data: Vec<u8> },
    TraitPci { half: Half, #[serde(with = "hexo")] header: Option<Vec<u8>>, #[serde(with = "hexv")] data: Vec<u8> },
    TraitIana { half: Half, #[serde(with = "hexo")] header: Option<Vec<u8>>, #[serde(with = "hexv")] data: Vec<u8> },
    TraitSpdm { half: Half, secured: bool, #[serde(with = "hexo")] header: Option<Vec<u8>>, #[serde(with = "hexv")] data: Vec<u8> },
    /// generate_spdm_msg_packet_bytes with any MessageType variant (index into MSG_TYPES)
    TraitTyped { half: Half, mt: u8, #[serde(with = "hexv")] data: Vec<u8> },
    // ---- the six control response encoders
    RespSetEndpointId { cc: u8, assign: u8, alloc: u8 },
    RespGetEndpointId { cc: u8, etype: u8, idtype: u8, fairness: bool },
    RespUuid { cc: u8, uuid: [u8; 16] },
    RespVersion { cc: u8 },
    RespMsgTypes { cc: u8, #[serde(with = "hexv")] types: Vec<u8> },
    RespVendorSupport { cc: u8, selector: u8, #[serde(with = "hexv")] vendor_id: Vec<u8> },
}

pub const N_KINDS: usize = 28;

impl EncCall {
    /// Stable label for distribution counters.
    pub fn kind(&self) -> &'static str {
        use EncCall::*;
        match self {
            ReqSetEndpointId { .. } => "req_set_endpoint_id",
            ReqGetEndpointId => "req_get_endpoint_id",
            ReqGetEndpointUuid => "req_get_endpoint_uuid",
            ReqGetVersion { .. } => "req_get_mctp_version_support",
            ReqGetMsgTypes => "req_get_message_type_support",
            ReqGetVendorSupport { .. } => "req_get_vendor_defined_message_support",
            ReqResolveEid { .. } => "req_resolve_endpoint_id",
            ReqAllocateEids { .. } => "req_allocate_endpoint_ids",
            ReqRoutingUpdate { .. } => "req_routing_information_update",
            ReqGetRoutingTable { .. } => "req_get_routing_table_entries",
            ReqPrepareDiscovery => "req_prepare_for_endpoint_discovery",
            ReqEndpointDiscovery => "req_endpoint_discovery",
            ReqDiscoveryNotify => "req_discovery_notify",
            ReqGetNetworkId => "req_get_network_id",
            ReqQueryHop { .. } => "req_query_hop",
            ReqResolveUuid { .. } => "req_resolve_uuid",
            ReqQueryRateLimit => "req_query_rate_limit",
            ReqVendor { format: 0, .. } => "vendor_defined_pci",
            ReqVendor { format: 1, .. } => "vendor_defined_iana",
            ReqVendor { .. } => "vendor_defined_badformat",
            TraitControl { .. } => "trait_control",
            TraitPci { .. } => "trait_pci",
            TraitIana { .. } => "trait_iana",
            TraitSpdm { secured: false, .. } => "trait_spdm",
            TraitSpdm { secured: true, .. } => "trait_secured",
            TraitTyped { .. } => "trait_typed",
            RespSetEndpointId { .. } => "resp_set_endpoint_id",
            RespGetEndpointId { .. } => "resp_get_endpoint_id",
            RespUuid { .. } => "resp_get_endpoint_uuid",
            RespVersion { .. } => "resp_get_mctp_version_support",
            RespMsgTypes { .. } => "resp_get_message_type_support",
            RespVendorSupport { .. } => "resp_get_vendor_defined_message_support",
        }
    }

    pub fn is_request_encoder(&self) -> bool {
        use EncCall::*;
        matches!(
            self,
            ReqSetEndpointId { .. }
                | ReqGetEndpointId
                | ReqGetEndpointUuid
                | ReqGetVersion { .. }
                | ReqGetMsgTypes
                | ReqGetVendorSupport { .. }
                | ReqResolveEid { .. }
                | ReqAllocateEids { .. }
                | ReqRoutingUpdate { .. }
                | ReqGetRoutingTable { .. }
                | ReqPrepareDiscovery
                | ReqEndpointDiscovery
                | ReqDiscoveryNotify
                | ReqGetNetworkId
                | ReqQueryHop { .. }
                | ReqResolveUuid { .. }
                | ReqQueryRateLimit
        )
    }

    pub fn is_response_encoder(&self) -> bool {
        use EncCall::*;
        matches!(
            self,
            RespSetEndpointId { .. }
                | RespGetEndpointId { .. }
                | RespUuid { .. }
                | RespVersion { .. }
                | RespMsgTypes { .. }
                | RespVendorSupport { .. }
        )
    }

    /// Completion code of a response encoder call.
    pub fn cc(&self) -> Option<u8> {
        use EncCall::*;
        match self {
            RespSetEndpointId { cc, .. }
            | RespGetEndpointId { cc, .. }
            | RespUuid { cc, .. }
            | RespVersion { cc }
            | RespMsgTypes { cc, .. }
            | RespVendorSupport { cc, .. } => Some(*cc),
            _ => None,
        }
    }
}

/// The sender-side environment of an encode: the context's own address, the
/// destination the caller names, and the EIDs stored in the two halves.
#[derive(Clone, Debug, Serialize, Deserialize, PartialEq, Eq, Hash)]
pub struct EncEnv {
    pub addr: u8,
    pub dest: u8,
    pub eid_req: u8,
    pub eid_resp: u8,
    /// when true the EID is installed by processing a forged Set Endpoint ID
    /// request (both halves get `eid_resp`) instead of through the accessors
    pub eid_via_process: bool,
    /// operations applied to the sender's context before the EID state is
    /// installed and the encoder is called (prior history of the context)
    #[serde(default)]
    pub hist: Vec<Op>,
}

/// Configuration of a receiving / responding context.
#[derive(Clone, Debug, Serialize, Deserialize, PartialEq, Eq, Hash)]
pub struct CtxCfg {
    pub addr: u8,
    #[serde(with = "hexv")]
    pub msg_types: Vec<u8>,
    /// (format, data, numeric_value)
    pub vendors: Vec<(u8, u32, u16)>,
}

impl CtxCfg {
    pub fn default_test() -> Self {
        CtxCfg { addr: 0x23, msg_types: vec![], vendors: vec![(0, 0x1234, 0xAB)] }
    }
}

/// One step of a history applied to a context.
#[derive(Clone, Debug, Serialize, Deserialize, PartialEq, Eq, Hash)]
pub enum Op {
    /// process_packet(bytes, buf) where buf has `cap` bytes all equal to `fill`
    Process { #[serde(with = "hexv")] bytes: Vec<u8>, cap: u16, fill: u8 },
    /// decode_packet(bytes)
    Decode { #[serde(with = "hexv")] bytes: Vec<u8> },
    /// get_length(bytes)
    GetLength { #[serde(with = "hexv")] bytes: Vec<u8> },
    SetReqEid(u8),
    SetRespEid(u8),
    SetUuid([u8; 16]),
    /// a plain encode through the context's own halves
    Encode { call: EncCall, dest: u8 },
}

pub fn hex(b: &[u8]) -> String {
    let mut s = String::with_capacity(b.len() * 2);
    for x in b {
        s.push_str(&format!("{:02x}", x));
    }
    s
}

pub fn unhex(s: &str) -> Result<Vec<u8>, String> {
    let s: String = s.chars().filter(|c| !c.is_whitespace()).collect();
    if s.len() % 2 != 0 {
        return Err("odd number of hex digits".into());
    }
    (0..s.len() / 2).map(|i| u8::from_str_radix(&s[2 * i..2 * i + 2], 16).map_err(|e| e.to_string())).collect()
}

/// serde helper: `Vec<u8>` as a hex string
pub mod hexv {
    use serde::{Deserialize, Deserializer, Serializer};
    pub fn serialize<S: Serializer>(v: &Vec<u8>, s: S) -> Result<S::Ok, S::Error> {
        s.serialize_str(&super::hex(v))
    }
    pub fn deserialize<'de, D: Deserializer<'de>>(d: D) -> Result<Vec<u8>, D::Error> {
        let s = String::deserialize(d)?;
        super::unhex(&s).map_err(serde::de::Error::custom)
    }
}

/// serde helper: `Option<Vec<u8>>` as null or a hex string
pub mod hexo {
    use serde::{Deserialize, Deserializer, Serializer};
    pub fn serialize<S: Serializer>(v: &Option<Vec<u8>>, s: S) -> Result<S::Ok, S::Error> {
        match v {
            None => s.serialize_none(),
            Some(b) => s.serialize_some(&super::hex(b)),
        }
    }
    pub fn deserialize<'de, D: Deserializer<'de>>(d: D) -> Result<Option<Vec<u8>>, D::Error> {
        let o = Option::<String>::deserialize(d)?;
        match o {
            None => Ok(None),
            Some(s) => super::unhex(&s).map(Some).map_err(serde::de::Error::custom),
        }
    }
}
