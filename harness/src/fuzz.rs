//! Byte-level front ends for the coverage-guided fuzz targets (`recv`, `hist`).
//! The same decoding is used in-target (libFuzzer) and by `mctp-check` when it
//! minimises a crash artifact and converts it into a property replay file, so
//! that a finding is reproducible without libFuzzer.

use crate::calls::*;
use crate::engine::{Failure, Prop};
use crate::known::Known;
use crate::props;
use crate::refmodel;
use arbitrary::Unstructured;
use serde_json::Value;

#[derive(Clone, Debug)]
pub struct Found {
    pub prop: &'static str,
    pub sig: String,
    pub detail: String,
    pub case: Value,
}

fn collect<P: Prop>(p: &P, case: &P::Case, known: &Known, out: &mut Vec<Found>) {
    let res = match crate::sut::trap(|| p.run(case)) {
        Ok(r) => r.failures,
        Err(m) => vec![Failure::new(format!("{}:uncaught_panic", p.id()), m)],
    };
    for f in res {
        if known.find(p.id(), &f.sig).is_none() {
            out.push(Found { prop: p.id(), sig: f.sig, detail: f.detail, case: serde_json::to_value(case).unwrap_or(Value::Null) });
        }
    }
}

fn preset_cfg(sel: u8, addr: u8) -> CtxCfg {
    match sel & 3 {
        0 => CtxCfg::default_test(),
        1 => CtxCfg { addr: addr & 0x7F, msg_types: vec![0x7E, 0x05, 0x06], vendors: vec![(0, 0x1234, 0xAB), (1, 0x11223344, 0x55AA)] },
        2 => CtxCfg {
            addr: addr & 0x7F,
            msg_types: (1..=30).collect(),
            vendors: (0..16).map(|i| ((i & 1) as u8, 0x01020304u32.wrapping_mul(i + 1), (i * 257) as u16)).collect(),
        },
        _ => CtxCfg { addr: 0x7F, msg_types: vec![], vendors: vec![(1, 0xFFFF_FFFF, 0xFFFF)] },
    }
}

fn preset_hist(flag: u8) -> Vec<Op> {
    if flag & 0x80 == 0 {
        return vec![];
    }
    vec![
        Op::Process { bytes: refmodel::build_control_request(0x23, 0x10, 0x23, 0x10, 3, 0x01, &[0x00, 0x42]), cap: 64, fill: 0 },
        Op::SetReqEid(0x17),
        Op::Process { bytes: refmodel::build_control_request(0x23, 0x11, 0x23, 0x11, 1, 0x06, &[0x00]), cap: 64, fill: 0 },
    ]
}

/// `recv` target: data[0] selects a configuration preset (bits 1:0), the response
/// buffer capacity (bits 6:2) and PEC fix-up (bit 7),
/// data[1] the context address / history flag, the rest is the input packet.
/// `mask` lists the properties to evaluate (e.g. ["C09"]).
pub fn recv_one(data: &[u8], mask: &[&str], known: &Known) -> Vec<Found> {
    let mut out = Vec::new();
    if data.len() < 2 {
        return out;
    }
    let cfg = preset_cfg(data[0], data[1]);
    let hist = preset_hist(data[1]);
    let mut bytes = data[2..].to_vec();
    // checksum fix-up: with bit 7 of the selector byte set the PEC is repaired,
    // so that the fuzzer can reach the logic behind the PEC check by mutating
    // a single byte (coverage feedback cannot guide it through a CRC)
    // likewise for the frame the SMBus byte count announces: with the capacity bits
    // all ones, the byte at the announced PEC position (inside the input) is made
    // consistent with the bytes before it
    if (data[0] >> 2) & 0x1F == 0x1F && bytes.len() >= 3 {
        let pos = bytes[2] as usize + 3;
        if pos < bytes.len() {
            bytes[pos] = crate::crc::crc8(&bytes[..pos]);
        }
    }
    if data[0] & 0x80 != 0 && !bytes.is_empty() {
        refmodel::fix_pec(&mut bytes);
    }
    let cap = 64 + (((data[0] >> 2) & 0x1F) as u16) * 3;
    let on = |id: &str| mask.is_empty() || mask.contains(&id);
    if on("C09") {
        collect(&props::c09::C09, &props::c09::Case { bytes: bytes.clone(), cfg: cfg.clone(), hist: hist.clone() }, known, &mut out);
    }
    if on("C10") {
        let ops = vec![
            Op::GetLength { bytes: bytes.clone() },
            Op::Decode { bytes: bytes.clone() },
            Op::Process { bytes: bytes.clone(), cap, fill: data[0] },
        ];
        collect(&props::c10::C10, &props::c10::Case { cfg: cfg.clone(), ops, repeat: 1 }, known, &mut out);
    }
    if on("C11") {
        collect(&props::c11::C11, &props::c11::Case { bytes: bytes.clone(), cfg: cfg.clone(), hist: hist.clone(), cap, fill: data[0], stride: data[1] | 1 }, known, &mut out);
    }
    if on("C02") {
        collect(&props::c02::C02, &props::c02::Case::Any { bytes: bytes.clone(), cfg: cfg.clone(), hist: hist.clone() }, known, &mut out);
        if bytes.len() >= 10 {
            // a burst applied to the PEC-repaired input
            let mut packet = bytes.clone();
            refmodel::fix_pec(&mut packet);
            let nbits = packet.len() as u32 * 8 - 7;
            let bit = (((data[0] as u32) << 8 | data[1] as u32) * 131) % nbits;
            let pattern = data[1] | 1;
            collect(&props::c02::C02, &props::c02::Case::Burst { packet, bit, pattern, cfg: cfg.clone() }, known, &mut out);
        }
    }
    if on("C17") && bytes.len() >= 3 {
        collect(
            &props::c17::C17,
            &props::c17::Case::Tail { b0: bytes[0], b1: bytes[1], b2: bytes[2], tail: bytes[3..].to_vec(), cfg: cfg.clone(), hist: hist.clone() },
            known,
            &mut out,
        );
    } else if on("C17") {
        collect(&props::c17::C17, &props::c17::Case::Short { bytes: bytes.clone(), cfg: cfg.clone() }, known, &mut out);
    }
    out
}

fn arb_cfg(u: &mut Unstructured) -> CtxCfg {
    let addr = u.arbitrary::<u8>().unwrap_or(0x23) & 0x7F;
    let nt = u.int_in_range(0..=30usize).unwrap_or(0);
    let msg_types = (0..nt).map(|_| u.arbitrary::<u8>().unwrap_or(0)).collect();
    let nv = u.int_in_range(1..=16usize).unwrap_or(1);
    let vendors = (0..nv)
        .map(|_| {
            let format = u.arbitrary::<u8>().unwrap_or(0) & 1;
            let data = u.arbitrary::<u32>().unwrap_or(0x1234);
            let num = u.arbitrary::<u16>().unwrap_or(0);
            (format, if format == 0 { data & 0xFFFF } else { data }, num)
        })
        .collect();
    CtxCfg { addr, msg_types, vendors }
}

fn arb_request(u: &mut Unstructured, a: u8, nvend: usize) -> Vec<u8> {
    let mut s = u.arbitrary::<u8>().unwrap_or(0x34);
    let mut iid = u.arbitrary::<u8>().unwrap_or(0) & 0x1F;
    // half of the requests come from one of two fixed (requester, instance id) pairs
    match s & 3 {
        0 => {
            s = 0x34;
            iid = 0;
        }
        1 => {
            s = 0x51;
            iid = 7;
        }
        _ => {}
    }
    let k = u.int_in_range(0..=9u8).unwrap_or(1);
    let (cmd, data): (u8, Vec<u8>) = match k {
        0 | 1 => {
            let op = u.int_in_range(0..=3u8).unwrap_or(0);
            let eid = u.int_in_range(1..=0xFEu8).unwrap_or(8);
            (0x01, vec![op, eid])
        }
        2 => (0x02, vec![]),
        3 => (0x03, vec![]),
        4 => (0x04, vec![u.arbitrary::<u8>().unwrap_or(0xFF)]),
        5 => (0x05, vec![]),
        6 | 7 => (0x06, vec![(u.arbitrary::<u8>().unwrap_or(0) as usize % nvend.max(1)) as u8]),
        8 => (0x06, vec![u.arbitrary::<u8>().unwrap_or(0xFF)]),
        _ => {
            let cmd = u.arbitrary::<u8>().unwrap_or(7);
            let n = u.int_in_range(0..=4usize).unwrap_or(0);
            let mut d: Vec<u8> = (0..n).map(|_| u.arbitrary::<u8>().unwrap_or(0)).collect();
            if let Some(l) = refmodel::req_fixed_len(cmd) {
                d.resize(l, 1);
            }
            (cmd, d)
        }
    };
    let dest_eid = u.arbitrary::<u8>().unwrap_or(a);
    // datagram / reserved bits: mostly clear
    let dbits = match u.arbitrary::<u8>().unwrap_or(0) & 7 {
        0 => 0x40,
        1 => 0x20,
        2 => 0x60,
        _ => 0,
    };
    let mut body = vec![0x80 | dbits | iid, cmd];
    body.extend_from_slice(&data);
    refmodel::build_packet(a, s, dest_eid, s, 0xC8, 0x00, &body)
}

fn arb_ops(u: &mut Unstructured, cfg: &CtxCfg, max: usize) -> Vec<Op> {
    let mut ops = Vec::new();
    while !u.is_empty() && ops.len() < max {
        let kind = u.int_in_range(0..=15u8).unwrap_or(0);
        let cap = 64 + u.arbitrary::<u8>().unwrap_or(0) as u16;
        let fill = u.arbitrary::<u8>().unwrap_or(0);
        let op = match kind {
            0..=6 => Op::Process { bytes: arb_request(u, cfg.addr, cfg.vendors.len()), cap, fill },
            7 => {
                // spoiled request
                let mut p = arb_request(u, cfg.addr, cfg.vendors.len());
                let how = u.arbitrary::<u8>().unwrap_or(0);
                let n = p.len();
                match how & 3 {
                    0 => p[n - 1] ^= how | 1,
                    1 => {
                        let i = (how as usize >> 2) % n;
                        p[i] ^= 0x10 | (how >> 4);
                    }
                    2 => {
                        p.insert(n - 1, how);
                        refmodel::fix_pec(&mut p);
                    }
                    _ => {
                        p[4] ^= 0x10;
                        refmodel::fix_pec(&mut p);
                    }
                }
                Op::Process { bytes: p, cap, fill }
            }
            8 => {
                let n = u.int_in_range(0..=40usize).unwrap_or(0);
                let bytes = (0..n).map(|_| u.arbitrary::<u8>().unwrap_or(0)).collect();
                Op::Process { bytes, cap, fill }
            }
            9 => Op::Decode { bytes: arb_request(u, cfg.addr, cfg.vendors.len()) },
            10 => Op::SetReqEid(u.arbitrary::<u8>().unwrap_or(0)),
            11 => Op::SetRespEid(u.arbitrary::<u8>().unwrap_or(0)),
            12 => {
                let mut x = [0u8; 16];
                for b in x.iter_mut() {
                    *b = u.arbitrary::<u8>().unwrap_or(0);
                }
                Op::SetUuid(x)
            }
            13 => Op::Encode { call: EncCall::RespGetEndpointId { cc: 0, etype: fill & 1, idtype: fill >> 6, fairness: fill & 2 != 0 }, dest: fill & 0x7F },
            14 => Op::Encode { call: EncCall::RespSetEndpointId { cc: 0, assign: fill & 1, alloc: (fill >> 1) % 3 }, dest: fill & 0x7F },
            _ => {
                // a valid response / vendor packet as traffic
                let s = fill & 0x7F;
                let p = if fill & 0x80 != 0 {
                    refmodel::build_control_response(cfg.addr, s, cfg.addr, s, 0, 0x01, 0, &[0, fill, 0])
                } else {
                    refmodel::build_packet(cfg.addr, s, cfg.addr, s, 0xC8, 0x7E, &[0x12, 0x34, fill])
                };
                Op::Process { bytes: p, cap, fill }
            }
        };
        ops.push(op);
    }
    ops
}

/// `hist` target: the bytes are decoded (arbitrary::Unstructured) into a
/// responder configuration and a history of up to 24 operations which is run
/// against the reference endpoint model (C12, C13, C14, C15).
pub fn hist_one(data: &[u8], mask: &[&str], known: &Known) -> Vec<Found> {
    let mut out = Vec::new();
    if data.is_empty() {
        return out;
    }
    let mut u = Unstructured::new(data);
    let mode = u.arbitrary::<u8>().unwrap_or(0);
    let cfg = arb_cfg(&mut u);
    let on = |id: &str| mask.is_empty() || mask.contains(&id);
    if mode & 7 == 7 {
        if on("C14") {
            let s = u.arbitrary::<u8>().unwrap_or(0x34) & 0x7F;
            let iid = u.arbitrary::<u8>().unwrap_or(0) & 0x1F;
            let noise = arb_ops(&mut u, &cfg, 6);
            collect(&props::c14::C14, &props::c14::Case::Walk { cfg, s, iid, noise }, known, &mut out);
        }
        return out;
    }
    let ops = arb_ops(&mut u, &cfg, 24);
    if ops.is_empty() {
        return out;
    }
    let case = props::c12::Case { cfg: cfg.clone(), ops: ops.clone() };
    if on("C12") {
        collect(&props::c12::C12, &case, known, &mut out);
    }
    if on("C13") {
        collect(&props::c13::C13, &case, known, &mut out);
    }
    if on("C15") {
        collect(&props::c15::C15, &case, known, &mut out);
    }
    if on("C14") {
        collect(&props::c14::C14, &props::c14::Case::Order { cfg, ops }, known, &mut out);
    }
    out
}


// ---------------------------------------------------------------------------
// `enc` target: encoder calls decoded from bytes (C01, C03-C08, C16)

fn arb_bytes(u: &mut Unstructured, max: usize) -> Vec<u8> {
    let n = u.int_in_range(0..=max).unwrap_or(0);
    (0..n).map(|_| u.arbitrary::<u8>().unwrap_or(0)).collect()
}

fn arb_opt_header(u: &mut Unstructured) -> Option<Vec<u8>> {
    match u.int_in_range(0..=3u8).unwrap_or(0) {
        0 => None,
        1 => Some(vec![]),
        _ => Some(arb_bytes(u, 8)),
    }
}

fn arb_enc_call(u: &mut Unstructured, invalid: bool) -> EncCall {
    use EncCall::*;
    let b = |u: &mut Unstructured| u.arbitrary::<u8>().unwrap_or(0);
    let half = |u: &mut Unstructured| if u.arbitrary::<bool>().unwrap_or(false) { Half::Resp } else { Half::Req };
    let big = if invalid { 300 } else { 245 };
    match u.int_in_range(0..=27u8).unwrap_or(0) {
        0 => {
            let eid = b(u);
            let eid = if !invalid && (eid == 0 || eid == 0xFF) { 0x42 } else { eid };
            ReqSetEndpointId { op: b(u) & 3, eid }
        }
        1 => ReqGetEndpointId,
        2 => ReqGetEndpointUuid,
        3 => ReqGetVersion { query: b(u) % 5 },
        4 => ReqGetMsgTypes,
        5 => ReqGetVendorSupport { sel: b(u) },
        6 => ReqResolveEid { eid: b(u) },
        7 => ReqAllocateEids { op: b(u) % 3, pool: b(u), start: b(u) },
        8 => {
            let n = u.int_in_range(0..=if invalid { 10usize } else { 7 }).unwrap_or(0);
            ReqRoutingUpdate { entries: (0..n).map(|_| [b(u), b(u), b(u), b(u)]).collect() }
        }
        9 => ReqGetRoutingTable { handle: b(u) },
        10 => ReqPrepareDiscovery,
        11 => ReqEndpointDiscovery,
        12 => ReqDiscoveryNotify,
        13 => ReqGetNetworkId,
        14 => ReqQueryHop { eid: b(u), mt: b(u) % 6 },
        15 => {
            let mut x = [0u8; 16];
            for v in x.iter_mut() {
                *v = b(u);
            }
            ReqResolveUuid { uuid: x, handle: b(u) }
        }
        16 => ReqQueryRateLimit,
        17 | 18 => {
            let format = if invalid { b(u) } else { b(u) & 1 };
            let data = u.arbitrary::<u32>().unwrap_or(0x1234);
            let mut msg = arb_bytes(u, big);
            if !invalid {
                msg.truncate(if format == 0 { 247 } else { 245 });
            }
            ReqVendor { format, data, numeric: 0, msg }
        }
        19 => {
            let header = arb_opt_header(u);
            let mut data = arb_bytes(u, big);
            if !invalid {
                data.truncate(refmodel::MAX_BODY - header.as_ref().map(|h| h.len()).unwrap_or(0));
            }
            match b(u) % 4 {
                0 => TraitPci { half: half(u), header, data },
                1 => TraitIana { half: half(u), header, data },
                2 => TraitSpdm { half: half(u), secured: false, header, data },
                _ => TraitSpdm { half: half(u), secured: true, header, data },
            }
        }
        20 => RespSetEndpointId { cc: b(u) % 6, assign: b(u) & 1, alloc: b(u) % 3 },
        21 => RespGetEndpointId { cc: b(u) % 6, etype: b(u) & 1, idtype: b(u) & 3, fairness: b(u) & 1 == 1 },
        22 => {
            let mut x = [0u8; 16];
            for v in x.iter_mut() {
                *v = b(u);
            }
            RespUuid { cc: b(u) % 6, uuid: x }
        }
        23 => RespVersion { cc: b(u) % 6 },
        24 | 25 => RespMsgTypes { cc: b(u) % 6, types: arb_bytes(u, if invalid { 40 } else { 30 }) },
        _ => RespVendorSupport { cc: b(u) % 6, selector: b(u), vendor_id: arb_bytes(u, 7) },
    }
}

/// `enc` target: the bytes are decoded into a sender environment (addresses,
/// EID state, a short prior history) and one encoder call; the encoder-side
/// oracles are evaluated on it.
pub fn enc_one(data: &[u8], mask: &[&str], known: &Known) -> Vec<Found> {
    use props::common::EncCase;
    let mut out = Vec::new();
    if data.len() < 4 {
        return out;
    }
    let mut u = Unstructured::new(data);
    let flags = u.arbitrary::<u8>().unwrap_or(0);
    let addr = u.arbitrary::<u8>().unwrap_or(0x23);
    let dest = u.arbitrary::<u8>().unwrap_or(0x34);
    let eid_req = u.arbitrary::<u8>().unwrap_or(0);
    let eid_resp = u.arbitrary::<u8>().unwrap_or(0);
    let hist = if flags & 0x03 == 0 {
        let cfg = CtxCfg { addr: addr & 0x7F, msg_types: vec![], vendors: vec![(0, 0x1234, 0xAB)] };
        arb_ops(&mut u, &cfg, 3)
    } else {
        vec![]
    };
    let on = |id: &str| mask.is_empty() || mask.contains(&id);
    let invalid = on("C16") || on("C04");
    let call = arb_enc_call(&mut u, invalid);
    let env7 = EncEnv { addr: addr & 0x7F, dest: dest & 0x7F, eid_req, eid_resp, eid_via_process: flags & 0x04 != 0, hist: hist.clone() };
    let env8 = EncEnv { addr, dest, eid_req, eid_resp, eid_via_process: flags & 0x04 != 0, hist };
    let case7 = EncCase { env: env7.clone(), call: call.clone() };
    if on("C01") {
        let recv = preset_cfg(flags >> 4, dest);
        collect(&props::c01::C01, &props::c01::Case { enc: case7.clone(), recv, recv_hist: preset_hist(flags) }, known, &mut out);
    }
    if on("C03") {
        collect(&props::c03::C03, &props::common::PktCase::Enc(case7.clone()), known, &mut out);
    }
    if on("C04") {
        collect(&props::c04::C04, &props::common::PktCase::Enc(case7.clone()), known, &mut out);
    }
    if on("C05") {
        collect(&props::c05::C05, &props::common::PktCase::Enc(EncCase { env: env8, call: call.clone() }), known, &mut out);
    }
    if on("C06") && call.is_request_encoder() {
        collect(&props::c06::C06, &case7, known, &mut out);
    }
    if on("C07") && call.is_response_encoder() {
        collect(&props::c07::C07, &props::common::PktCase::Enc(case7.clone()), known, &mut out);
    }
    if on("C08") && matches!(call, EncCall::ReqVendor { .. } | EncCall::TraitPci { .. } | EncCall::TraitIana { .. } | EncCall::TraitSpdm { .. }) {
        collect(&props::c08::C08, &case7, known, &mut out);
    }
    if on("C16") {
        let pa = flags | 1;
        collect(&props::c16::C16, &props::c16::Case { enc: case7, extra: (flags >> 3) as u16, poison_a: pa, poison_b: pa ^ 0xFF | 2 }, known, &mut out);
    }
    out
}

pub fn enc_seed_corpus() -> Vec<Vec<u8>> {
    let mut v = Vec::new();
    for k in 0u8..28 {
        let mut d = vec![k.wrapping_mul(37), 0x23, 0x34, k, k ^ 0x5A, k];
        for i in 0..40u8 {
            d.push(i.wrapping_mul(k | 1).wrapping_add(k));
        }
        v.push(d);
    }
    v
}

pub fn mask_from_env() -> Vec<String> {
    std::env::var("MCTP_FUZZ_PROPS").ok().map(|s| s.split(',').filter(|x| !x.is_empty()).map(|x| x.to_string()).collect()).unwrap_or_default()
}

/// Entry point shared by both targets: evaluate, and abort (so that libFuzzer
/// saves the input) when a failure that is not a known finding is found.
pub fn target_body(which: &str, data: &[u8]) {
    use std::sync::OnceLock;
    static STATE: OnceLock<(Known, Vec<String>)> = OnceLock::new();
    let (known, mask) = STATE.get_or_init(|| {
        crate::sut::install_panic_hook();
        (Known::load(&crate::engine::verif_root().join("KNOWN_FINDINGS.txt")), mask_from_env())
    });
    let m: Vec<&str> = mask.iter().map(|s| s.as_str()).collect();
    let found = match which {
        "recv" => recv_one(data, &m, known),
        "hist" => hist_one(data, &m, known),
        _ => enc_one(data, &m, known),
    };
    if let Some(f) = found.first() {
        eprintln!("FUZZ-FOUND property={} sig={} :: {}", f.prop, f.sig, f.detail);
        std::process::abort();
    }
}

/// Seed corpus: valid packets from the reference encoder behind the two
/// selector bytes of the `recv` target.
pub fn recv_seed_corpus() -> Vec<Vec<u8>> {
    let mut v = Vec::new();
    for (i, p) in props::c10::base_packets().into_iter().enumerate() {
        let mut d = vec![((i as u8) & 3) | if i % 2 == 0 { 0x80 } else { 0 }, 0x23 | if i % 3 == 0 { 0x80 } else { 0 }];
        d.extend_from_slice(&p);
        v.push(d);
    }
    // long packets and the repository's golden SPDM packets
    let mut long = vec![0u8, 0x23];
    long.extend_from_slice(&refmodel::build_packet(0x23, 0x34, 0x23, 0x34, 0xC8, 0x7F, &[0x5A; 249]));
    v.push(long);
    let mut g = vec![1u8, 0x22];
    g.extend_from_slice(&[0x44, 0x0f, 0x0a, 0x69, 0x01, 0x22, 0x34, 0xc8, 0x05, 0x10, 0x84, 0x00, 0x00, 0x9c]);
    v.push(g);
    v
}

/// Seed corpus for `hist`: a few byte strings that decode to meaningful histories.
pub fn hist_seed_corpus() -> Vec<Vec<u8>> {
    let mut v = Vec::new();
    for seed in 0u8..12 {
        let mut d = vec![seed, 0x23, 3, 0x7E, 0x05, 0x06, 2, 0, 0x34, 0x12, 0, 0, 4, 0, 1, 0x44, 0x33, 0x22, 0x11, 9, 0];
        for i in 0..60u8 {
            d.push(i.wrapping_mul(seed.wrapping_mul(7).wrapping_add(13)).wrapping_add(seed));
        }
        v.push(d);
    }
    v.push(vec![7, 0x23, 0, 3, 0, 0x34, 0x12, 0, 0, 4, 0, 1, 0x44, 0x33, 0x22, 0x11, 9, 0, 1, 0x55, 0x66, 0x77, 0x88, 1, 2, 0x34, 5]);
    v
}
