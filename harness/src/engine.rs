//! The property-based testing engine: a sharded proptest `TestRunner` loop with
//! deterministic seeding, shrinking to a replay file, known-finding handling and
//! evidence output.

use crate::known::Known;
use proptest::strategy::BoxedStrategy;
use proptest::test_runner::{Config, RngAlgorithm, TestCaseError, TestError, TestRng, TestRunner};
use serde::de::DeserializeOwned;
use serde::Serialize;
use serde_json::{json, Value};
use std::cell::RefCell;
use std::collections::{BTreeMap, HashSet};
use std::fmt::Debug;
use std::hash::{Hash, Hasher};
use std::path::{Path, PathBuf};
use std::sync::atomic::{AtomicBool, Ordering};
use std::time::Instant;

#[derive(Clone, Copy, Debug, PartialEq, Eq)]
pub enum Tier {
    Quick,
    Thorough,
}

impl Tier {
    pub fn name(&self) -> &'static str {
        match self {
            Tier::Quick => "quick",
            Tier::Thorough => "thorough",
        }
    }
}

#[derive(Clone, Debug)]
pub struct Failure {
    /// canonical, line-number free signature, e.g. `C06:query_hop:cmd=0x0e`
    pub sig: String,
    pub detail: String,
}

impl Failure {
    pub fn new(sig: impl Into<String>, detail: impl Into<String>) -> Self {
        Failure { sig: sig.into(), detail: detail.into() }
    }
}

#[derive(Default)]
pub struct CaseResult {
    pub failures: Vec<Failure>,
    pub nontrivial: bool,
    pub labels: Vec<&'static str>,
}

impl CaseResult {
    pub fn fail(&mut self, sig: impl Into<String>, detail: impl Into<String>) {
        self.failures.push(Failure::new(sig, detail));
    }
    pub fn label(&mut self, l: &'static str) {
        self.labels.push(l);
    }
}

pub trait Prop: Sync + Send {
    type Case: Clone + Debug + Hash + Serialize + DeserializeOwned + Send + 'static;

    fn id(&self) -> &'static str;
    /// how cases are generated and what makes one non-trivial / distinct
    fn rule(&self) -> String;
    fn assumptions(&self) -> Vec<String>;
    fn strategy(&self, tier: Tier) -> BoxedStrategy<Self::Case>;
    /// number of generated cases (all shards together)
    fn budget(&self, tier: Tier) -> u64;
    /// pure and deterministic; traps panics; collects every failure
    fn run(&self, case: &Self::Case) -> CaseResult;
    /// labels that must be populated, else the generator is broken (exit 2)
    fn required_labels(&self) -> Vec<&'static str> {
        vec![]
    }
    /// enumerated (exhaustive) sub-domains: shard `shard` of `nshards` calls
    /// `f` for each of its cases.  All enumerated cases are distinct.
    fn enumerate(&self, _tier: Tier, _shard: usize, _nshards: usize, _f: &mut dyn FnMut(Self::Case)) {}
    /// description of the enumerated sub-domains (None: nothing enumerated)
    fn enumerated_desc(&self, _tier: Tier) -> Option<String> {
        None
    }
    /// true when the enumerated part covers the property's whole domain
    fn fully_exhaustive(&self) -> bool {
        false
    }
    /// optional tight-loop sweep of a very large enumerated sub-domain that
    /// bypasses the per-case bookkeeping: returns (cases evaluated, non-trivial
    /// cases, first failing case).  The failing case is re-run through `run`.
    fn bulk(&self, _tier: Tier, _shard: usize, _nshards: usize) -> Option<(u64, u64, Option<Self::Case>)> {
        None
    }
}

pub fn verif_root() -> PathBuf {
    if let Ok(r) = std::env::var("VERIF_ROOT") {
        return PathBuf::from(r);
    }
    Path::new(env!("CARGO_MANIFEST_DIR")).parent().unwrap().to_path_buf()
}

pub fn seed_from_env() -> u64 {
    std::env::var("VERIF_SEED").ok().and_then(|s| s.trim().parse::<i128>().ok()).map(|v| v as u64).unwrap_or(1)
}

fn splitmix64(x: &mut u64) -> u64 {
    *x = x.wrapping_add(0x9E3779B97F4A7C15);
    let mut z = *x;
    z = (z ^ (z >> 30)).wrapping_mul(0xBF58476D1CE4E5B9);
    z = (z ^ (z >> 27)).wrapping_mul(0x94D049BB133111EB);
    z ^ (z >> 31)
}

fn shard_seed(seed: u64, id: &str, shard: usize) -> [u8; 32] {
    let mut h: u64 = seed ^ 0xD6E8FEB86659FD93;
    for b in id.bytes() {
        h = (h ^ b as u64).wrapping_mul(0x100000001B3);
    }
    h ^= (shard as u64).wrapping_mul(0xA24BAED4963EE407);
    let mut out = [0u8; 32];
    for i in 0..4 {
        out[i * 8..i * 8 + 8].copy_from_slice(&splitmix64(&mut h).to_le_bytes());
    }
    out
}

fn hash_case<C: Hash>(c: &C) -> u64 {
    #[allow(deprecated)]
    let mut h = std::hash::SipHasher::new();
    c.hash(&mut h);
    h.finish()
}

struct ShardState {
    evaluations: u64,
    enumerated: u64,
    nontrivial_enum: u64,
    nontrivial: HashSet<u64>,
    labels: BTreeMap<&'static str, u64>,
    samples: Vec<Value>,
    known: BTreeMap<String, (u64, String)>,
    failed: bool,
    target_sig: Option<String>,
}

struct ShardOut<C> {
    st: ShardState,
    violation: Option<(C, Vec<Failure>)>,
    aborted: Option<String>,
}

pub struct RunOpts {
    pub tier: Tier,
    pub seed: u64,
    pub shards: usize,
    /// scale the case budget (used by tests of the machinery itself)
    pub budget_override: Option<u64>,
}

pub struct RunSummary {
    pub exit: i32,
    pub evidence: Value,
}

fn account<P: Prop>(prop: &P, known: &Known, st: &mut ShardState, case: &P::Case, res: &CaseResult, enumerated: bool) {
    st.evaluations += 1;
    if enumerated {
        st.enumerated += 1;
        if res.nontrivial {
            st.nontrivial_enum += 1;
        }
    } else if res.nontrivial {
        st.nontrivial.insert(hash_case(case));
    }
    for l in &res.labels {
        *st.labels.entry(l).or_insert(0) += 1;
    }
    if res.nontrivial && st.samples.len() < 2 {
        if let Ok(v) = serde_json::to_value(case) {
            st.samples.push(v);
        }
    }
    for f in &res.failures {
        if known.find(prop.id(), &f.sig).is_some() {
            let e = st.known.entry(f.sig.clone()).or_insert((0, f.detail.clone()));
            e.0 += 1;
        }
    }
}

/// Run one case; a panic that escapes the property code itself (as opposed to
/// one trapped around a library call) is turned into a failure.
fn safe_run<P: Prop>(prop: &P, case: &P::Case) -> CaseResult {
    // one case in sixteen runs with traffic on a foreign context before every
    // wrapped library call (sut::noise_tick); decided by the case's own hash
    let h = hash_case(case);
    crate::sut::set_noise(if h & 15 == 7 { Some(h) } else { None });
    let out = crate::sut::trap(|| prop.run(case));
    crate::sut::set_noise(None);
    match out {
        Ok(mut r) => {
            if h & 15 == 7 {
                r.labels.push("foreign_context_noise");
            }
            r
        }
        Err(m) => {
            let mut r = CaseResult::default();
            r.fail(format!("{}:uncaught_panic:{}", prop.id(), crate::sut::panic_kind(&m)), format!("panic outside a trapped library call: {}", m));
            r
        }
    }
}

fn unknown_failures<'a>(id: &str, known: &Known, res: &'a CaseResult) -> Vec<&'a Failure> {
    res.failures.iter().filter(|f| known.find(id, &f.sig).is_none()).collect()
}

fn run_shard<P: Prop>(
    prop: &P,
    known: &Known,
    opts: &RunOpts,
    shard: usize,
    stop: &AtomicBool,
) -> ShardOut<P::Case> {
    let st = RefCell::new(ShardState {
        evaluations: 0,
        enumerated: 0,
        nontrivial_enum: 0,
        nontrivial: HashSet::new(),
        labels: BTreeMap::new(),
        samples: Vec::new(),
        known: BTreeMap::new(),
        failed: false,
        target_sig: None,
    });
    let mut violation: Option<(P::Case, Vec<Failure>)> = None;

    // ---- enumerated sub-domains
    {
        let mut f = |case: P::Case| {
            if violation.is_some() || stop.load(Ordering::Relaxed) {
                return;
            }
            let res = safe_run(prop, &case);
            account(prop, known, &mut st.borrow_mut(), &case, &res, true);
            let unk = unknown_failures(prop.id(), known, &res);
            if !unk.is_empty() {
                let fs: Vec<Failure> = unk.into_iter().cloned().collect();
                violation = Some((case, fs));
                stop.store(true, Ordering::Relaxed);
            }
        };
        prop.enumerate(opts.tier, shard, opts.shards, &mut f);
    }
    if violation.is_none() && !stop.load(Ordering::Relaxed) {
        if let Some((n, nt, bad)) = prop.bulk(opts.tier, shard, opts.shards) {
            {
                let mut s = st.borrow_mut();
                s.evaluations += n;
                s.enumerated += n;
                s.nontrivial_enum += nt;
            }
            if let Some(case) = bad {
                let res = safe_run(prop, &case);
                let fs: Vec<Failure> = unknown_failures(prop.id(), known, &res).into_iter().cloned().collect();
                if !fs.is_empty() {
                    violation = Some((case, fs));
                    stop.store(true, Ordering::Relaxed);
                }
            }
        }
    }
    if violation.is_some() {
        return ShardOut { st: st.into_inner(), violation, aborted: None };
    }

    // ---- generated cases
    let total = opts.budget_override.unwrap_or_else(|| prop.budget(opts.tier));
    let mut cases = total / opts.shards as u64;
    if (shard as u64) < total % opts.shards as u64 {
        cases += 1;
    }
    if cases == 0 {
        return ShardOut { st: st.into_inner(), violation: None, aborted: None };
    }
    let config = Config {
        cases: cases.min(u32::MAX as u64) as u32,
        failure_persistence: None,
        max_shrink_iters: 20_000,
        max_shrink_time: 0,
        max_local_rejects: 65_536,
        max_global_rejects: 65_536,
        verbose: 0,
        ..Config::default()
    };
    let rng = TestRng::from_seed(RngAlgorithm::ChaCha, &shard_seed(opts.seed, prop.id(), shard));
    let mut runner = TestRunner::new_with_rng(config, rng);
    let strategy = prop.strategy(opts.tier);
    // the first failing case as it was found (kept in case the minimal one does
    // not fail the same way when it is re-run, e.g. because the library keeps
    // state outside the contexts)
    let first: RefCell<Option<(P::Case, Vec<Failure>)>> = RefCell::new(None);
    let result = runner.run(&strategy, |case| {
        {
            let s = st.borrow();
            if !s.failed && stop.load(Ordering::Relaxed) {
                // another shard found a violation: finish quickly
                return Ok(());
            }
        }
        let res = safe_run(prop, &case);
        let unk = unknown_failures(prop.id(), known, &res);
        let mut s = st.borrow_mut();
        if let Some(target) = s.target_sig.clone() {
            // shrinking: keep only candidates that fail the same way
            return if unk.iter().any(|f| f.sig == target) {
                Err(TestCaseError::fail(target))
            } else {
                Ok(())
            };
        }
        account(prop, known, &mut s, &case, &res, false);
        if let Some(f) = unk.first() {
            s.failed = true;
            s.target_sig = Some(f.sig.clone());
            *first.borrow_mut() = Some((case.clone(), unk.iter().map(|f| (*f).clone()).collect()));
            stop.store(true, Ordering::Relaxed);
            return Err(TestCaseError::fail(f.sig.clone()));
        }
        Ok(())
    });
    let mut aborted = None;
    match result {
        Ok(()) => {}
        Err(TestError::Fail(_, minimal)) => {
            let res = safe_run(prop, &minimal);
            let fs: Vec<Failure> = unknown_failures(prop.id(), known, &res).into_iter().cloned().collect();
            let target = st.borrow().target_sig.clone();
            let same = fs.iter().any(|f| Some(&f.sig) == target.as_ref());
            violation = match (same, first.borrow_mut().take()) {
                (false, Some(orig)) => Some(orig),
                _ => Some((minimal, fs)),
            };
        }
        Err(TestError::Abort(r)) => {
            aborted = Some(format!("{}", r));
        }
    }
    ShardOut { st: st.into_inner(), violation, aborted }
}

/// Run one property; writes the evidence file, a replay file on violation,
/// prints the KNOWN-FINDING / VIOLATION lines and returns the exit code.
pub fn run_property<P: Prop>(prop: &P, opts: &RunOpts) -> RunSummary {
    let t0 = Instant::now();
    let root = verif_root();
    let known = Known::load(&root.join("KNOWN_FINDINGS.txt"));
    let stop = AtomicBool::new(false);

    let outs: Vec<ShardOut<P::Case>> = std::thread::scope(|sc| {
        let handles: Vec<_> = (0..opts.shards)
            .map(|i| {
                let known = &known;
                let stop = &stop;
                std::thread::Builder::new()
                    .stack_size(64 << 20)
                    .spawn_scoped(sc, move || run_shard(prop, known, opts, i, stop))
                    .expect("spawn shard")
            })
            .collect();
        handles.into_iter().map(|h| h.join().expect("shard thread panicked")).collect()
    });

    // ---- merge
    let mut evaluations = 0u64;
    let mut enumerated = 0u64;
    let mut nontrivial_enum = 0u64;
    let mut nontrivial: HashSet<u64> = HashSet::new();
    let mut labels: BTreeMap<&'static str, u64> = BTreeMap::new();
    let mut samples: Vec<Value> = Vec::new();
    let mut known_counts: BTreeMap<String, (u64, String)> = BTreeMap::new();
    let mut violation: Option<(P::Case, Vec<Failure>)> = None;
    let mut aborted: Option<String> = None;
    for o in outs {
        evaluations += o.st.evaluations;
        enumerated += o.st.enumerated;
        nontrivial_enum += o.st.nontrivial_enum;
        nontrivial.extend(o.st.nontrivial.iter());
        for (k, v) in o.st.labels {
            *labels.entry(k).or_insert(0) += v;
        }
        for s in o.st.samples {
            if samples.len() < 8 {
                samples.push(s);
            }
        }
        for (k, (n, d)) in o.st.known {
            let e = known_counts.entry(k).or_insert((0, d));
            e.0 += n;
        }
        // several shards may have found one: keep the smallest case
        if let Some(v) = o.violation {
            // a case that merely observed state left behind by another case (a
            // signature ending in `process_state_left_by_earlier_calls`) is the
            // worse witness: prefer the case whose own history caused it
            let secondhand = |fs: &Vec<Failure>| fs.iter().all(|f| f.sig.ends_with("process_state_left_by_earlier_calls"));
            let size = |c: &P::Case| serde_json::to_string(c).map(|t| t.len()).unwrap_or(usize::MAX);
            let better = match &violation {
                None => true,
                Some((cur, cf)) => (secondhand(cf), size(cur)) > (secondhand(&v.1), size(&v.0)),
            };
            if better {
                violation = Some(v);
            }
        }
        if aborted.is_none() {
            aborted = o.aborted;
        }
    }
    let distinct_nontrivial = nontrivial.len() as u64 + nontrivial_enum;

    let mut exit = 0;
    let mut violations = 0;
    let id = prop.id();

    // known findings listed for this property
    let mut known_json = Vec::new();
    for f in known.open.iter().filter(|f| f.property == id) {
        let n = known_counts.get(&f.sig).map(|x| x.0).unwrap_or(0);
        println!("KNOWN-FINDING: property={} {} [sig={} observed_in_cases={}]", id, f.what, f.sig, n);
        known_json.push(json!({"sig": f.sig, "what": f.what, "cases_excluded": n}));
    }

    let mut violation_json = Value::Null;
    if let Some((case, fails)) = &violation {
        violations = 1;
        exit = 1;
        let case_v = serde_json::to_value(case).unwrap_or(Value::Null);
        let (path, doc) = write_replay(id, opts.seed, opts.tier.name(), &case_v, fails);
        for f in fails {
            println!("FAIL property={} sig={} :: {}", id, f.sig, f.detail);
        }
        println!("VIOLATION property={} replay={}", id, path.display());
        violation_json = doc;
    }

    // generator health
    let mut missing = Vec::new();
    if violation.is_none() {
        for l in prop.required_labels() {
            if labels.get(l).copied().unwrap_or(0) == 0 {
                missing.push(l);
            }
        }
    }
    if let Some(a) = &aborted {
        if exit == 0 {
            println!("INCONCLUSIVE property={} proptest aborted: {}", id, a);
            exit = 2;
        }
    }
    if !missing.is_empty() && exit == 0 {
        println!("INCONCLUSIVE property={} generator starved required labels: {:?}", id, missing);
        exit = 2;
    }

    let wall = t0.elapsed().as_secs_f64();
    let labels_json: serde_json::Map<String, Value> = labels.iter().map(|(k, v)| (k.to_string(), json!(v))).collect();
    let mut coverage = json!({
        "evaluations": evaluations,
        "distinct_nontrivial": distinct_nontrivial,
        "rule": prop.rule(),
        "samples": samples,
        "generated_cases": evaluations - enumerated,
        "enumerated_cases": enumerated,
        "labels": labels_json,
        "known_excluded": known_json,
        "shards": opts.shards,
        "exhaustive": prop.fully_exhaustive() && violation.is_none(),
    });
    if let Some(d) = prop.enumerated_desc(opts.tier) {
        coverage["enumerated_subdomains"] = json!(d);
    }
    if !violation_json.is_null() {
        coverage["violation"] = violation_json;
    }
    let evidence = json!({
        "property_id": id,
        "tier": opts.tier.name(),
        "seed": opts.seed as i64,
        "level": "exploration",
        "coverage": coverage,
        "assumptions": prop.assumptions(),
        "wall_s": wall,
        "violations": violations,
        "engine": "pbt (proptest TestRunner, sharded)",
    });
    RunSummary { exit, evidence }
}

/// Write a replay file for a (shrunk / minimised) failing case.
pub fn write_replay(id: &str, seed: u64, tier: &str, case_v: &Value, fails: &[Failure]) -> (PathBuf, Value) {
    let root = verif_root();
    let text = serde_json::to_string(case_v).unwrap_or_default();
    let mut h = std::collections::hash_map::DefaultHasher::new();
    text.hash(&mut h);
    let name = format!("{}-{:016x}.json", id, h.finish());
    let dir = root.join("replays");
    let _ = std::fs::create_dir_all(&dir);
    let path = dir.join(name);
    let fj: Vec<Value> = fails.iter().map(|f| json!({"sig": f.sig, "detail": f.detail})).collect();
    let doc = json!({"property": id, "seed": seed, "tier": tier, "case": case_v, "failures": fj});
    let _ = std::fs::write(&path, serde_json::to_string_pretty(&doc).unwrap());
    (path, doc)
}

pub fn write_evidence(id: &str, evidence: &Value) {
    let root = verif_root();
    let dir = root.join("evidence");
    let _ = std::fs::create_dir_all(&dir);
    let path = dir.join(format!("{}.json", id));
    let text = serde_json::to_string_pretty(evidence).unwrap();
    let _ = std::fs::write(&path, &text);
    // the latest run of each tier is also kept side by side
    if let Some(tier) = evidence.get("tier").and_then(|t| t.as_str()) {
        let tdir = dir.join("by_tier");
        let _ = std::fs::create_dir_all(&tdir);
        let _ = std::fs::write(tdir.join(format!("{}.{}.json", id, tier)), &text);
    }
}

/// Re-execute one saved case without proptest.
pub fn replay_property<P: Prop>(prop: &P, path: &Path) -> i32 {
    let root = verif_root();
    let known = Known::load(&root.join("KNOWN_FINDINGS.txt"));
    let text = match std::fs::read_to_string(path) {
        Ok(t) => t,
        Err(e) => {
            println!("cannot read {}: {}", path.display(), e);
            return 2;
        }
    };
    let doc: Value = match serde_json::from_str(&text) {
        Ok(v) => v,
        Err(e) => {
            println!("cannot parse {}: {}", path.display(), e);
            return 2;
        }
    };
    let case_v = doc.get("case").cloned().unwrap_or(doc.clone());
    let case: P::Case = match serde_json::from_value(case_v) {
        Ok(c) => c,
        Err(e) => {
            println!("replay file does not hold a {} case: {}", prop.id(), e);
            return 2;
        }
    };
    let res = safe_run(prop, &case);
    let mut bad = false;
    for f in &res.failures {
        if let Some(k) = known.find(prop.id(), &f.sig) {
            println!("KNOWN-FINDING: property={} {} [sig={}]", prop.id(), k.what, f.sig);
        } else {
            println!("FAIL property={} sig={} :: {}", prop.id(), f.sig, f.detail);
            bad = true;
        }
    }
    if bad {
        println!("VIOLATION property={} replay={}", prop.id(), path.display());
        1
    } else {
        println!("replay of {} passes", path.display());
        0
    }
}

/// Intern a dynamically built label (the set of labels is small and finite).
pub fn intern(s: String) -> &'static str {
    use std::sync::Mutex;
    static TABLE: Mutex<Option<std::collections::HashSet<&'static str>>> = Mutex::new(None);
    let mut g = TABLE.lock().unwrap();
    let t = g.get_or_insert_with(Default::default);
    if let Some(x) = t.get(s.as_str()) {
        return x;
    }
    let leaked: &'static str = Box::leak(s.into_boxed_str());
    t.insert(leaked);
    leaked
}
