//! C07 — control response bodies follow the DSP0236 response layouts.

use super::common::*;
use crate::calls::*;
use crate::engine::*;
use crate::gen;
use crate::refmodel::{self, RefEnc};
use crate::sut::Enc;
use proptest::prelude::*;

pub struct C07;

impl Prop for C07 {
    type Case = PktCase;
    fn id(&self) -> &'static str {
        "C07"
    }
    fn rule(&self) -> String {
        "generated: the 6 response encoders x 6 completion codes x every status/type enum combination x fairness bit x EID state 0..255 (stored through the response-half accessor or by a processed Set Endpoint ID) x UUIDs x 0-30 message types x vendor ID fields of 0-7 bytes x selectors 0..255, poisoned buffers. oracle: b9 & 0xE0 = 0, b10 = command, b11 = completion code, and for Success the remaining bytes equal the reference fields exactly. non-trivial = Success response with a non-zero enum, EID, UUID, list or field (what a zeroed default cannot show); distinct by hash of (environment, call)".into()
    }
    fn assumptions(&self) -> Vec<String> {
        vec!["bytes after the completion code of non-Success responses and the instance-id bits are not demanded".into()]
    }
    fn strategy(&self, _tier: Tier) -> BoxedStrategy<PktCase> {
        prop_oneof![
            6 => gen::enc_pair(gen::addr7().boxed(), gen::resp_call(false)).prop_map(|(env, call)| PktCase::Enc(EncCase { env, call })),
            1 => gen::resp_case().prop_map(PktCase::Resp),
        ]
        .boxed()
    }
    fn budget(&self, tier: Tier) -> u64 {
        match tier {
            Tier::Quick => 800_000,
            Tier::Thorough => 12_000_000,
        }
    }
    fn required_labels(&self) -> Vec<&'static str> {
        vec![
            "resp_set_endpoint_id", "resp_get_endpoint_id", "resp_get_endpoint_uuid", "resp_get_mctp_version_support",
            "resp_get_message_type_support", "resp_get_vendor_defined_message_support", "nonsuccess", "eid_via_process", "types30", "process_packet_response", "request_with_datagram_or_reserved_bit",
        ]
    }
    fn enumerate(&self, tier: Tier, shard: usize, nshards: usize, f: &mut dyn FnMut(PktCase)) {
        let mut idx = 0usize;
        super::enumer::for_each_enc_case(tier, false, false, false, &mut |env, call| {
            if !call.is_response_encoder() {
                return;
            }
            idx += 1;
            if idx % nshards == shard {
                f(PktCase::Enc(EncCase { env, call }));
            }
        });
    }
    fn enumerated_desc(&self, _tier: Tier) -> Option<String> {
        Some("all 6 completion codes x every (assignment, allocation) status pair, x every (endpoint type, ID type, fairness) triple, x 3 UUIDs, x every message-type list length 0..30, x vendor ID field lengths 0..7 x 5 selectors; every selector 0..255; every stored EID 0..255 (through the accessor and through a processed Set Endpoint ID) for the two EID-reporting encoders".into())
    }
    fn run(&self, case: &PktCase) -> CaseResult {
        let mut r = CaseResult::default();
        let case = match case {
            PktCase::Enc(c) => c,
            PktCase::Resp(c) => {
                // "every control response the library encodes has the request, datagram and
                // reserved bits clear" - also the ones process_packet generates, whatever
                // the request's control byte carried
                r.label("process_packet_response");
                if c.req.len() > 9 && c.req[9] & 0x60 != 0 {
                    r.label("request_with_datagram_or_reserved_bit");
                }
                let Some(p) = produce_response_opt(c, false) else { return r };
                if p.len < 13 || p.len > p.buf.len() {
                    return r;
                }
                r.nontrivial = true;
                if p.buf[9] & 0xE0 != 0 {
                    r.fail("C07:process_packet_response:ctrl_bits".to_string(), format!("response {} to request {} has request/datagram/reserved bits set in its control byte {:#04x}", hex(&p.buf[..p.len]), hex(&c.req), p.buf[9]));
                }
                if p.buf[10] != c.req[10] {
                    r.fail("C07:process_packet_response:cmd".to_string(), format!("response {} answers command {:#04x} but carries command code {:#04x}", hex(&p.buf[..p.len]), c.req[10], p.buf[10]));
                }
                // a Success answer carries exactly the answered command's response fields:
                // the layout (field count and widths, reserved positions) is fixed by the
                // statement whatever the values are (those are C13-C15's business)
                if p.buf[9] & 0x80 == 0 && p.buf[11] == 0 {
                    let d = &p.buf[12..p.len - 1];
                    let bad: Option<String> = match p.buf[10] {
                        0x01 if d.len() != 3 => Some(format!("Set Endpoint ID answer has {} field bytes, want status, EID, pool size", d.len())),
                        0x01 if d[0] & 0xCC != 0 => Some(format!("status byte {:#04x} has bits outside 5:4 / 1:0", d[0])),
                        0x01 if d[2] != 0 => Some(format!("pool size {:#04x}, want 0", d[2])),
                        0x02 if d.len() != 3 => Some(format!("Get Endpoint ID answer has {} field bytes, want EID, type byte, medium-specific byte", d.len())),
                        0x02 if d[1] & 0xCC != 0 => Some(format!("endpoint type byte {:#04x} has bits outside 5:4 / 1:0", d[1])),
                        0x03 if d.len() != 16 => Some(format!("Get Endpoint UUID answer has {} field bytes, want 16", d.len())),
                        0x04 if d != [0x01, 0xF1, 0xF3, 0xF1, 0x00] => Some(format!("version answer is {}, want one entry f1f3f100", hex(d))),
                        0x05 if d.is_empty() || d[0] as usize != d.len() - 1 || d[0] > 30 => Some(format!("message type answer {}: the count does not match the {} types that follow", hex(d), d.len().saturating_sub(1))),
                        0x06 if d.len() < 2 || d[1] > 1 || d.len() != (if d[1] == 0 { 6 } else { 8 }) => {
                            Some(format!("vendor support answer {}: want next selector, format 0/1, a 2-byte (PCI) or 4-byte (IANA) ID and the 16-bit numeric value", hex(d)))
                        }
                        _ => None,
                    };
                    r.label(match p.buf[10] {
                        0x01 => "pp_success_01",
                        0x02 => "pp_success_02",
                        0x03 => "pp_success_03",
                        0x04 => "pp_success_04",
                        0x05 => "pp_success_05",
                        0x06 => "pp_success_06",
                        _ => "pp_success_other",
                    });
                    if let Some(m) = bad {
                        r.fail(format!("C07:process_packet_response:layout:cmd={:#04x}", p.buf[10]), format!("response {} to request {}: {}", hex(&p.buf[..p.len]), hex(&c.req), m));
                    }
                }
                return r;
            }
        };
        let kind = case.call.kind();
        let RefEnc::Packet(p) = refmodel::ref_encode(&case.call, case.env.eid_resp) else { return r };
        r.label(kind);
        if case.env.eid_via_process {
            r.label("eid_via_process");
        }
        if let EncCall::RespMsgTypes { types, .. } = &case.call {
            if types.len() == 30 {
                r.label("types30");
            }
        }
        if !p.exact {
            r.label("nonsuccess");
        }
        let ((e, buf), (e_again, buf_again)) = encode_twice_in(&case.env, &case.call, BIG, |i| 0xB0 | (i as u8 & 0x0F));
        // encoding a response must not consume or change what the context stores
        // (the EID in particular): the same call again gives the same packet
        if let (Enc::Ok(n1), again) = (&e, &e_again) {
            let same = matches!(again, Enc::Ok(n2) if n2 == n1 && *n1 <= buf.len() && buf_again[..*n1] == buf[..*n1]);
            if !same {
                let n = (*n1).min(buf.len());
                r.fail(format!("C07:{}:second_encode_differs", kind), format!("the same response encoded twice in a row on one context: first {} , then {:?} {}", hex(&buf[..n]), again, hex(&buf_again[..n.min(24)])));
            }
        }
        let len = match e {
            Enc::Ok(n) => n,
            other => {
                // the quantifier covers every completion code, enum combination, EID, UUID,
                // list of 0-30 types and field of 0-7 bytes: each must be encodable
                r.fail(format!("C07:{}:valid_arguments_not_encoded", kind), format!("the response encoder returned {:?} for arguments inside the property's quantifier: {:?}", other, case.call));
                return r;
            }
        };
        if len < 13 || len > buf.len() {
            r.fail(format!("C07:{}:len", kind), format!("a control response of {} bytes cannot hold its headers and completion code", len));
            return r;
        }
        // the same response into a buffer that is exactly as long as the response (and one
        // with a single spare byte): if the encoder accepts the buffer, the bytes are the same
        for spare in [0usize, 1] {
            let (e_fit, buf_fit) = encode_in(&case.env, &case.call, len + spare, |i| 0x50 | (i as u8 & 0x0F));
            if let Enc::Ok(n2) = e_fit {
                if n2 > buf_fit.len() || buf_fit[..n2] != buf[..len] {
                    r.label("exact_fit_checked");
                    r.fail(format!("C07:{}:depends_on_buffer_capacity", kind), format!("into a {}-byte buffer the encoder writes {} , into a {}-byte buffer {}", BIG, hex(&buf[..len]), len + spare, hex(&buf_fit[..n2.min(buf_fit.len())])));
                    break;
                }
            }
        }
        let body = &buf[9..len - 1];
        if body[0] & 0xE0 != 0 {
            r.fail(format!("C07:{}:ctrl_bits", kind), format!("control byte {:#04x} has request/datagram/reserved bits set", body[0]));
        }
        if body[1] != p.body[1] {
            r.fail(format!("C07:{}:cmd={:#04x}", kind, body[1]), format!("command code is {:#04x}, want {:#04x}", body[1], p.body[1]));
        }
        if body[2] != p.body[2] {
            r.fail(format!("C07:{}:cc", kind), format!("completion code is {:#04x}, caller supplied {:#04x}", body[2], p.body[2]));
        }
        if p.exact {
            // Success
            r.nontrivial = p.body[3..].iter().any(|b| *b != 0);
            if body[3..] != p.body[3..] {
                r.fail(format!("C07:{}:fields", kind), format!("response fields are {}, want {}", hex(&body[3..]), hex(&p.body[3..])));
            }
        }
        r
    }
}
