//! C02 — a packet whose PEC does not match is never accepted or acted upon.

use crate::calls::*;
use crate::crc::crc8;
use crate::engine::*;
use crate::gen;
use crate::refmodel::{self, Verdict};
use crate::sut::{self, CtxStore, Dec, Obs};
use proptest::prelude::*;
use serde::{Deserialize, Serialize};

#[derive(Clone, Debug, Serialize, Deserialize, PartialEq, Eq, Hash)]
pub enum Case {
    /// (a) any byte string: Ok from decode/process implies a correct PEC
    Any {
        #[serde(with = "hexv")]
        bytes: Vec<u8>,
        cfg: CtxCfg,
        hist: Vec<Op>,
    },
    /// (b) a valid packet with a non-zero 8-bit burst XORed in at `bit` (bit
    /// offset from the MSB of byte 0; the window may straddle two bytes)
    Burst {
        #[serde(with = "hexv")]
        packet: Vec<u8>,
        bit: u32,
        pattern: u8,
        cfg: CtxCfg,
    },
    /// (d) a valid packet followed by extra bytes (so the last byte of the
    /// whole string is not its PEC), optionally after the length probe has
    /// been called on the same bytes (receive flow: probe, read, decode)
    Trailing {
        #[serde(with = "hexv")]
        packet: Vec<u8>,
        #[serde(with = "hexv")]
        extra: Vec<u8>,
        probe_first: bool,
        cfg: CtxCfg,
    },
    /// (c) twin contexts; one additionally processes the bad-PEC input
    Twin {
        cfg: CtxCfg,
        hist: Vec<Op>,
        #[serde(with = "hexv")]
        bad: Vec<u8>,
        cap: u16,
        fill: u8,
        followups: Vec<Op>,
    },
}

pub struct C02;

/// Half of the receiving contexts are the device the packet is addressed to
/// (their own SMBus address equals the destination address in byte 0) - the
/// ordinary situation on a bus; the other half have an unrelated address.
fn addressed(mut cfg: CtxCfg, bytes: &[u8], own: bool) -> CtxCfg {
    if own && !bytes.is_empty() {
        cfg.addr = bytes[0] >> 1;
    }
    cfg
}

pub fn apply_burst(packet: &[u8], bit: u32, pattern: u8) -> Vec<u8> {
    let mut p = packet.to_vec();
    let byte = (bit / 8) as usize;
    let sh = bit % 8;
    if byte < p.len() {
        p[byte] ^= pattern >> sh;
    }
    if sh != 0 && byte + 1 < p.len() {
        p[byte + 1] ^= pattern << (8 - sh);
    }
    p
}

fn pec_ok(b: &[u8]) -> bool {
    !b.is_empty() && b[b.len() - 1] == crc8(&b[..b.len() - 1])
}

/// Would the reference decoder accept `b` once its PEC is repaired?
fn pec_is_only_reason(b: &[u8]) -> bool {
    if b.is_empty() || pec_ok(b) {
        return false;
    }
    let mut c = b.to_vec();
    refmodel::fix_pec(&mut c);
    matches!(refmodel::ref_decode(&c).verdict, Verdict::Accept { .. } | Verdict::AcceptOrLenReject { .. })
}

fn check_not_acted(r: &mut CaseResult, what: &str, ctx: &libmctp::smbus::MCTPSMBusContext, bad: &[u8], cap: usize, fill: u8) {
    let e_req = sut::req_eid(ctx);
    let e_resp = sut::resp_eid(ctx);
    let d = sut::decode(ctx, bad);
    if d.is_ok() {
        r.fail(format!("C02:{}:decode_accepted_bad_pec", what), format!("{} has PEC {:#04x} but CRC-8 of the preceding bytes is {:#04x}; decode_packet returned {}", hex(bad), bad[bad.len() - 1], crc8(&bad[..bad.len() - 1]), d.brief()));
    }
    let before = super::c11::prefill(cap, fill, 7);
    let mut buf = before.clone();
    let p = sut::process(ctx, bad, &mut buf);
    if p.dec.is_ok() {
        r.fail(format!("C02:{}:process_accepted_bad_pec", what), format!("{} has a wrong PEC; process_packet returned {} (response {:?})", hex(bad), p.dec.brief(), p.resp));
    }
    if p.resp.is_some() || buf != before {
        r.fail(format!("C02:{}:response_written", what), format!("{} has a wrong PEC but process_packet produced response bytes (reported {:?})", hex(bad), p.resp));
    }
    if !p.dec.is_panic() && (sut::req_eid(ctx) != e_req || sut::resp_eid(ctx) != e_resp) {
        r.fail(format!("C02:{}:eid_changed", what), format!("{} has a wrong PEC but the EID changed from ({:#04x},{:#04x}) to ({:#04x},{:#04x})", hex(bad), e_req, e_resp, sut::req_eid(ctx), sut::resp_eid(ctx)));
    }
}

impl Prop for C02 {
    type Case = Case;
    fn id(&self) -> &'static str {
        "C02"
    }
    fn rule(&self) -> String {
        "generated: (a) byte strings (random, frame-grammar packets of all types/commands with the PEC wrong w.p. ~0.2, reference-encoded packets with one byte changed), decoded and processed on a random context after a random history: Ok implies last byte = CRC-8 of the rest (independent CRC); (b) reference-encoded valid packets of all kinds (lengths 12-259) XOR a non-zero 8-bit window at any bit offset (may straddle two bytes, may touch the PEC): never Ok, no response bytes, EID unchanged; half of the receiving contexts are the device the packet is addressed to (own address = destination address), one burst in eight lies in the SMBus header and one pattern in four is a single bit (sound: CRC-8 detects every burst of <= 8 bits); the corruption is applied in place to the receive buffer from which the valid packet was decoded and processed just before; thorough tier enumerates every offset x 255 patterns for 24 packets; (d) valid packets followed by 1-6 extra bytes, decoded and processed as a whole (optionally right after get_length was called on the same bytes): rejected, no response, EID unchanged; (c) twin contexts with identical configuration and history, one additionally processes a bad-PEC input with a pre-filled buffer: Err, buffer unchanged, EIDs unchanged, and every later output of the twin equals the other's on the same follow-up operations. non-trivial = the PEC is the only reason to reject (the input is accepted by the reference decoder once the PEC is repaired); distinct by hash".into()
    }
    fn assumptions(&self) -> Vec<String> {
        vec!["which error is returned is not demanded".into(), "panics are reported by C10, not here".into()]
    }
    fn strategy(&self, _tier: Tier) -> BoxedStrategy<Case> {
        let bad_input = (prop_oneof![3 => gen::ref_valid_packet(), 2 => gen::actionable_request(), 1 => gen::recv_input()], 1u8..=255, any::<u16>(), any::<bool>()).prop_map(|(mut b, x, pos, burst)| {
            if b.is_empty() {
                return b;
            }
            if burst {
                let n = b.len();
                let i = (pos as usize * n) >> 16;
                b[i] ^= x;
            } else if pec_ok(&b) {
                let n = b.len();
                b[n - 1] ^= x;
            }
            b
        });
        prop_oneof![
            3 => (gen::recv_input(), gen::ctx_cfg(), prop_oneof![2 => Just(Vec::new()).boxed(), 1 => gen::prior_history(3)], any::<bool>())
                .prop_map(|(bytes, cfg, hist, own)| Case::Any { cfg: addressed(cfg, &bytes, own), bytes, hist }),
            4 => (prop_oneof![3 => gen::ref_valid_packet(), 1 => gen::actionable_request()], any::<u32>(), prop_oneof![3 => 1u8..=255, 1 => (0u32..8).prop_map(|k| 1u8 << k)], gen::ctx_cfg(), any::<bool>(), 0u8..8)
                .prop_map(|(packet, pos, pattern, cfg, own, early)| {
                    let nbits = (packet.len() as u64) * 8 - 7;
                    // one burst in eight hits the SMBus header (first four bytes)
                    let nbits = if early == 0 { nbits.min(32) } else { nbits };
                    let bit = ((pos as u64 * nbits) >> 32) as u32;
                    Case::Burst { cfg: addressed(cfg, &packet, own), packet, bit, pattern }
                }),
            2 => (prop_oneof![3 => gen::ref_valid_packet(), 2 => gen::actionable_request()], gen::bytes_between(1, 6), any::<bool>(), gen::ctx_cfg(), any::<bool>())
                .prop_map(|(packet, extra, probe_first, cfg, own)| Case::Trailing { cfg: addressed(cfg, &packet, own), packet, extra, probe_first }),
            3 => (gen::ctx_cfg(), gen::prior_history(4), bad_input, 64u16..=300, any::<u8>(), proptest::collection::vec(gen::history_op(), 1..=5))
                .prop_map(|(cfg, hist, bad, cap, fill, followups)| Case::Twin { cfg: addressed(cfg, &bad, fill & 1 == 0), hist, bad, cap, fill, followups }),
        ]
        .boxed()
    }
    fn budget(&self, tier: Tier) -> u64 {
        match tier {
            Tier::Quick => 600_000,
            Tier::Thorough => 10_000_000,
        }
    }
    fn required_labels(&self) -> Vec<&'static str> {
        vec!["any", "any_ok", "burst", "burst_straddles", "burst_touches_pec", "twin", "twin_pec_only_reason", "twin_set_eid", "trailing", "trailing_after_probe"]
    }
    fn enumerate(&self, tier: Tier, shard: usize, nshards: usize, f: &mut dyn FnMut(Case)) {
        if tier != Tier::Thorough {
            return;
        }
        let cfg = CtxCfg { addr: 0x23, msg_types: vec![0x7E], vendors: vec![(0, 0x1234, 0xAB)] };
        let mut idx = 0usize;
        let mut packets = super::c10::base_packets();
        packets.push(refmodel::build_packet(0x23, 0x34, 0x23, 0x34, 0xC8, 0x7F, &(0..249u32).map(|i| (i * 7 + 1) as u8).collect::<Vec<u8>>()));
        for p in packets {
            let nbits = p.len() as u32 * 8 - 7;
            for bit in 0..nbits {
                for pattern in 1..=255u8 {
                    idx += 1;
                    if idx % nshards != shard {
                        continue;
                    }
                    f(Case::Burst { packet: p.clone(), bit, pattern, cfg: addressed(cfg.clone(), &p, true) });
                    if bit < 32 {
                        f(Case::Burst { packet: p.clone(), bit, pattern, cfg: cfg.clone() });
                    }
                }
            }
        }
    }
    fn enumerated_desc(&self, tier: Tier) -> Option<String> {
        (tier == Tier::Thorough).then(|| "every bit offset x every non-zero 8-bit pattern for 24 reference-encoded packets (all message types, requests and responses) and one maximum-length (259-byte) packet".to_string())
    }
    fn run(&self, case: &Case) -> CaseResult {
        let mut r = CaseResult::default();
        match case {
            Case::Any { bytes, cfg, hist } => {
                r.label("any");
                let store = CtxStore::new(cfg);
                let mut ctx = store.ctx();
                for op in hist {
                    let _ = sut::apply_op(&mut ctx, op);
                }
                r.nontrivial = pec_is_only_reason(bytes);
                let ok = pec_ok(bytes);
                let d = sut::decode(&ctx, bytes);
                let mut buf = vec![0u8; 128];
                let p = sut::process(&ctx, bytes, &mut buf);
                if d.is_ok() || p.dec.is_ok() {
                    r.label("any_ok");
                }
                if !ok {
                    if d.is_ok() {
                        r.fail("C02:any:decode_accepted_bad_pec".to_string(), format!("{}: decode_packet returned {} although the last byte is not the CRC-8 of the rest", hex(bytes), d.brief()));
                    }
                    if p.dec.is_ok() {
                        r.fail("C02:any:process_accepted_bad_pec".to_string(), format!("{}: process_packet returned {} although the last byte is not the CRC-8 of the rest", hex(bytes), p.dec.brief()));
                    }
                    if p.resp.is_some() {
                        r.fail("C02:any:response_written".to_string(), format!("{}: response of {:?} bytes for an input with a wrong PEC", hex(bytes), p.resp));
                    }
                }
            }
            Case::Burst { packet, bit, pattern, cfg } => {
                r.label("burst");
                if packet.is_empty() || *pattern == 0 || !pec_ok(packet) {
                    return r;
                }
                if bit % 8 != 0 {
                    r.label("burst_straddles");
                }
                if (*bit / 8) as usize + 2 >= packet.len() {
                    r.label("burst_touches_pec");
                }
                let bad = apply_burst(packet, *bit, *pattern);
                if bad == *packet {
                    return r;
                }
                r.nontrivial = pec_is_only_reason(&bad);
                let store = CtxStore::new(cfg);
                let ctx = store.ctx();
                // receive-buffer reuse: the valid packet is first decoded and
                // processed from a buffer, which is then corrupted in place
                let mut rx = packet.clone();
                let _ = sut::decode(&ctx, &rx);
                let mut tmp = vec![0u8; 96];
                let _ = sut::process(&ctx, &rx, &mut tmp);
                rx.copy_from_slice(&bad);
                check_not_acted(&mut r, "burst", &ctx, &rx, 96, 0x3C);
            }
            Case::Trailing { packet, extra, probe_first, cfg } => {
                r.label("trailing");
                if packet.is_empty() || extra.is_empty() || !pec_ok(packet) {
                    return r;
                }
                let mut full = packet.clone();
                full.extend_from_slice(extra);
                if pec_ok(&full) {
                    return r; // the longer string happens to carry a correct PEC itself
                }
                r.nontrivial = true;
                if *probe_first {
                    r.label("trailing_after_probe");
                }
                let store = CtxStore::new(cfg);
                let ctx = store.ctx();
                if *probe_first {
                    let _ = sut::get_length(&ctx, &full);
                }
                check_not_acted(&mut r, "trailing", &ctx, &full, 96, 0x5A);
            }
            Case::Twin { cfg, hist, bad, cap, fill, followups } => {
                r.label("twin");
                if bad.is_empty() || pec_ok(bad) {
                    return r;
                }
                r.nontrivial = pec_is_only_reason(bad);
                if r.nontrivial {
                    r.label("twin_pec_only_reason");
                    if bad.len() == 14 && bad[8] == 0 && bad[9] & 0x80 != 0 && bad[10] == 0x01 {
                        r.label("twin_set_eid");
                    }
                }
                let s1 = CtxStore::new(cfg);
                let mut a = s1.ctx();
                let s2 = CtxStore::new(cfg);
                let mut b = s2.ctx();
                for op in hist {
                    let _ = sut::apply_op(&mut a, op);
                    let _ = sut::apply_op(&mut b, op);
                }
                check_not_acted(&mut r, "twin", &a, bad, *cap as usize, *fill);
                if !r.failures.is_empty() {
                    return r;
                }
                for (i, op) in followups.iter().enumerate() {
                    let oa = sut::apply_op(&mut a, op);
                    let ob = sut::apply_op(&mut b, op);
                    let panicked = |o: &Obs| match o {
                        Obs::Proc { proc, .. } => proc.dec.is_panic(),
                        Obs::Dec(Dec::Panic(_)) => true,
                        Obs::Len(sut::Len::Panic(_)) => true,
                        Obs::Enc { enc: sut::Enc::Panic(_), .. } => true,
                        _ => false,
                    };
                    if panicked(&oa) || panicked(&ob) {
                        break;
                    }
                    let eids_a = (sut::req_eid(&a), sut::resp_eid(&a));
                    let eids_b = (sut::req_eid(&b), sut::resp_eid(&b));
                    if oa != ob || eids_a != eids_b {
                        r.fail("C02:twin:later_output_differs".to_string(), format!("after processing bad-PEC input {}, follow-up step {} ({:?}) behaves differently from the twin that never saw it: {:?} / eids {:?} vs {:?} / eids {:?}", hex(bad), i, op, oa, eids_a, ob, eids_b));
                        break;
                    }
                }
            }
        }
        r
    }
}
