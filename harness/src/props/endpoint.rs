//! Model-based checking of a responder context over a history of operations
//! (shared by C12, C13, C14 and C15 and by the `hist` fuzz target).
//!
//! `run_model` applies each operation to the real context and to the
//! reference endpoint (`refmodel::RefEndpoint`) and reports every
//! disagreement, tagged with the property it belongs to.

use crate::calls::*;
use crate::crc::crc8;
use crate::refmodel::{self, RefEndpoint, RespDemand, Verdict};
use crate::sut::{self, CtxStore, Dec, Enc, Len, Obs};

#[derive(Clone, Debug)]
pub struct Report {
    pub prop: &'static str,
    pub sig: String,
    pub detail: String,
}

#[derive(Clone, Debug, Default)]
pub struct Stats {
    /// EIDs carried by accepted assignments, in order
    pub assignments: Vec<u8>,
    /// steps after the last accepted assignment
    pub steps_after_last_assignment: usize,
    /// Set-EID-shaped inputs that were not applied (rejected, corrupted,
    /// decode-only, Set Discovered Flag / Reset) and carried an EID different
    /// from the current one
    pub unapplied_seteid_other: usize,
    pub frames_checked: usize,
    pub frames_nontrivial: usize,
    pub eid_reports_checked: usize,
    pub vendor_queries: usize,
    pub vendor_formats_seen: [bool; 2],
    pub identity_queries: [usize; 3],
    pub uuid_updates: usize,
    pub traffic_between_uuid_updates: bool,
    pub steps: usize,
    pub exact_fit_checked: usize,
    pub panics: usize,
    pub resyncs: usize,
}

pub struct Trace {
    pub reports: Vec<Report>,
    pub stats: Stats,
}

fn looks_like_set_eid(b: &[u8]) -> Option<u8> {
    if b.len() == 14 && b[8] == 0x00 && b[9] & 0x80 != 0 && b[10] == 0x01 {
        Some(b[12])
    } else {
        None
    }
}

fn resync(m: &mut RefEndpoint, ctx: &libmctp::smbus::MCTPSMBusContext, st: &mut Stats) {
    m.eid_req = sut::req_eid(ctx);
    m.eid_resp = sut::resp_eid(ctx);
    st.resyncs += 1;
}

fn demand_prop(cmd: u8) -> &'static str {
    match cmd {
        0x01 | 0x02 => "C13",
        0x06 => "C14",
        _ => "C15",
    }
}

fn cmd_name(cmd: u8) -> &'static str {
    match cmd {
        0x01 => "set_endpoint_id",
        0x02 => "get_endpoint_id",
        0x03 => "get_endpoint_uuid",
        0x04 => "get_mctp_version_support",
        0x05 => "get_message_type_support",
        0x06 => "get_vendor_defined_message_support",
        _ => "other",
    }
}

/// Check the response `r` against `demand`.
fn check_demand(out: &mut Vec<Report>, step: usize, cmd: u8, req: &[u8], r: &[u8], demand: &RespDemand) {
    let prop = demand_prop(cmd);
    let name = cmd_name(cmd);
    if r.len() < 13 {
        out.push(Report { prop, sig: format!("{}:{}:response_too_short", prop, name), detail: format!("step {}: response {} to request {} is too short", step, hex(r), hex(req)) });
        return;
    }
    let cc = r[11];
    let data = &r[12..r.len() - 1];
    match demand {
        RespDemand::Unspecified => {}
        RespDemand::Exact { cc: wcc, data: wdata } => {
            if cc != *wcc {
                out.push(Report { prop, sig: format!("{}:{}:cc={:#04x}", prop, name, cc), detail: format!("step {}: request {} answered with completion code {:#04x}, want {:#04x} (response {})", step, hex(req), cc, wcc, hex(r)) });
            } else if data != &wdata[..] {
                out.push(Report { prop, sig: format!("{}:{}:data", prop, name), detail: format!("step {}: request {} answered with data {}, want {} (response {})", step, hex(req), hex(data), hex(wdata), hex(r)) });
            }
        }
        RespDemand::Cc(wcc) => {
            if cc != *wcc {
                out.push(Report { prop, sig: format!("{}:{}:cc={:#04x}", prop, name, cc), detail: format!("step {}: request {} answered with completion code {:#04x}, want {:#04x}", step, hex(req), cc, wcc) });
            }
        }
        RespDemand::Assigned { eid } => {
            if cc != 0 {
                out.push(Report { prop, sig: format!("{}:{}:assignment_cc={:#04x}", prop, name, cc), detail: format!("step {}: accepted assignment {} answered with completion code {:#04x}, want Success", step, hex(req), cc) });
            } else if data.len() < 2 || data[0] & 0x30 != 0 {
                out.push(Report { prop, sig: format!("{}:{}:assignment_status", prop, name), detail: format!("step {}: accepted assignment {} answered with status byte {:?}, want assignment status 'accepted' (bits 5:4 = 00)", step, hex(req), data.first()) });
            } else if data[1] != *eid {
                out.push(Report { prop, sig: format!("{}:{}:assignment_reports_wrong_eid", prop, name), detail: format!("step {}: assignment of EID {:#04x} answered with EID setting {:#04x}", step, eid, data[1]) });
            }
        }
        RespDemand::Eid { eid } => {
            if cc != 0 {
                out.push(Report { prop, sig: format!("{}:{}:cc={:#04x}", prop, name, cc), detail: format!("step {}: Get Endpoint ID answered with completion code {:#04x}", step, cc) });
            } else if data.is_empty() || data[0] != *eid {
                out.push(Report { prop, sig: format!("{}:{}:reports_wrong_eid", prop, name), detail: format!("step {}: Get Endpoint ID reports EID {:?}, the last assigned/stored EID is {:#04x}", step, data.first(), eid) });
            }
        }
    }
}

pub fn run_model(cfg: &CtxCfg, ops: &[Op]) -> Trace {
    let store = CtxStore::new(cfg);
    let mut ctx = store.ctx();
    // shadow context (every other case): sees the same operations, but every
    // request that the main context answered with n bytes is processed into a
    // response buffer of exactly n bytes; it must behave identically
    let shadow_store = CtxStore::new(cfg);
    let mut shadow = if ops.len() % 2 == 1 { Some(shadow_store.ctx()) } else { None };
    let mut m = RefEndpoint::new(cfg);
    let mut out: Vec<Report> = Vec::new();
    let mut st = Stats::default();
    let mut traffic_since_uuid = false;

    for (i, op) in ops.iter().enumerate() {
        st.steps += 1;
        st.steps_after_last_assignment += 1;
        let obs = sut::apply_op(&mut ctx, op);
        if let Some(sh) = shadow.as_mut() {
            let shadow_op = match (op, &obs) {
                (Op::Process { bytes, cap, fill }, Obs::Proc { proc, .. }) => match proc.resp {
                    Some(n) if n < *cap as usize => Op::Process { bytes: bytes.clone(), cap: n as u16, fill: *fill },
                    _ => op.clone(),
                },
                _ => op.clone(),
            };
            let sobs = sut::apply_op(sh, &shadow_op);
            if let (Op::Process { bytes, .. }, Obs::Proc { proc, buf }, Obs::Proc { proc: sproc, buf: sbuf }) = (op, &obs, &sobs) {
                if let Some(n) = proc.resp {
                    st.exact_fit_checked += 1;
                    let same = !proc.dec.is_panic() && sproc.dec == proc.dec && sproc.resp == proc.resp && n <= buf.len() && n <= sbuf.len() && sbuf[..n] == buf[..n];
                    if !same && !proc.dec.is_panic() {
                        let f = refmodel::ref_decode(bytes);
                        let prop = if matches!(f.verdict, Verdict::Accept { .. }) && f.control && f.rq && matches!(f.cmd, 0x01..=0x06) { demand_prop(f.cmd) } else { "C12" };
                        out.push(Report {
                            prop,
                            sig: format!("{}:{}:exact_fit_response_buffer", prop, cmd_name(f.cmd)),
                            detail: format!("step {}: request {} is answered with {} bytes into a large buffer, but into a response buffer of exactly {} bytes process_packet gives {} / {:?}", i, hex(bytes), n, n, sproc.dec.brief(), sproc.resp),
                        });
                    }
                }
            }
        }
        match (op, &obs) {
            (Op::Process { bytes, cap, .. }, Obs::Proc { proc, buf }) => {
                traffic_since_uuid = true;
                let f = refmodel::ref_decode(bytes);
                if proc.dec.is_panic() {
                    st.panics += 1;
                    // a request the properties say "is answered" must not end in a panic
                    if matches!(f.verdict, Verdict::Accept { .. }) && f.control && f.rq {
                        let n = bytes.len();
                        let mut probe = m.clone();
                        let demand = probe.on_request(f.cmd, &bytes[11..n - 1]);
                        let reserved_eid = f.cmd == 0x01 && (bytes[12] == 0x00 || bytes[12] == 0xFF);
                        if demand != RespDemand::Unspecified && !reserved_eid {
                            let prop = demand_prop(f.cmd);
                            match f.cmd {
                                0x03 => st.identity_queries[0] += 1,
                                0x04 => st.identity_queries[1] += 1,
                                0x05 => st.identity_queries[2] += 1,
                                _ => {}
                            }
                            out.push(Report { prop, sig: format!("{}:{}:panicked_instead_of_answering", prop, cmd_name(f.cmd)), detail: format!("step {}: request {} must be answered but process_packet panicked: {}", i, hex(bytes), proc.dec.brief()) });
                        }
                    }
                    resync(&mut m, &ctx, &mut st);
                    continue;
                }
                let accepted_request = matches!(f.verdict, Verdict::Accept { .. }) && f.control && f.rq;
                if accepted_request {
                    let n = bytes.len();
                    let data = &bytes[11..n - 1];
                    let cmd = f.cmd;
                    let cur = m.eid_resp;
                    let mut demand = m.on_request(cmd, data);
                    if cmd == 0x01 {
                        let (opb, eid) = (data[0], data[1]);
                        if opb <= 1 && (eid == 0x00 || eid == 0xFF) {
                            // reserved EIDs are outside the property's quantifier
                            demand = RespDemand::Unspecified;
                            resync(&mut m, &ctx, &mut st);
                        } else if opb <= 1 {
                            st.assignments.push(eid);
                            st.steps_after_last_assignment = 0;
                        } else {
                            // Reset EID, Set Discovered Flag and operation bytes that are
                            // neither Set (0x00) nor Force (0x01) never change the EID
                            if eid != cur {
                                st.unapplied_seteid_other += 1;
                            }
                        }
                    }
                    // statistics come from the request (not from what the library did with it)
                    match cmd {
                        0x01 | 0x02 => st.eid_reports_checked += 1,
                        0x03 => st.identity_queries[0] += 1,
                        0x04 => st.identity_queries[1] += 1,
                        0x05 => st.identity_queries[2] += 1,
                        0x06 => {
                            if demand != RespDemand::Unspecified {
                                st.vendor_queries += 1;
                                let fmt = cfg.vendors[data[0] as usize].0 as usize;
                                if fmt < 2 {
                                    st.vendor_formats_seen[fmt] = true;
                                }
                            }
                        }
                        _ => {}
                    }
                    match proc.resp {
                        Some(rn) if rn <= *cap as usize && rn <= buf.len() => {
                            let r = &buf[..rn];
                            // C12: framing and correlation, for requests whose SMBus
                            // source address and source EID name the same requester
                            let s = bytes[6];
                            if bytes[3] == (((s & 0x7F) << 1) | 1) {
                                st.frames_checked += 1;
                                let iid = bytes[9] & 0x1F;
                                if iid != 0 || s != 0x34 || cfg.addr != 0x23 {
                                    st.frames_nontrivial += 1;
                                }
                                for (what, detail) in refmodel::check_response_frame(r, s, cfg.addr, iid, cmd) {
                                    let sig = if what == "instance_id" {
                                        format!("C12:instance_id:resp={},req={}", if r[9] & 0x1F == 0 { "0" } else { "other" }, if iid == 0 { "0" } else { "!=0" })
                                    } else {
                                        format!("C12:{}", what)
                                    };
                                    out.push(Report { prop: "C12", sig, detail: format!("step {}: response {} to request {} from requester {:#04x} (responder {:#04x}): {}", i, hex(r), hex(bytes), s, cfg.addr, detail) });
                                }
                                match sut::get_length(&ctx, r) {
                                    Len::Ok(l) if l == rn => {}
                                    other => out.push(Report { prop: "C12", sig: "C12:reported_length".into(), detail: format!("step {}: process_packet reported {} response bytes but the length probe on the response gives {:?}", i, rn, other) }),
                                }
                            }
                            check_demand(&mut out, i, cmd, bytes, r, &demand);
                        }
                        Some(rn) => {
                            out.push(Report { prop: "C12", sig: "C12:response_len_exceeds_buffer".into(), detail: format!("step {}: reported response length {} exceeds the buffer capacity {}", i, rn, cap) });
                        }
                        None => {
                            if demand != RespDemand::Unspecified {
                                let prop = demand_prop(cmd);
                                out.push(Report { prop, sig: format!("{}:{}:no_response", prop, cmd_name(cmd)), detail: format!("step {}: accepted request {} was not answered", i, hex(bytes)) });
                            }
                        }
                    }
                } else if let Some(eid) = looks_like_set_eid(bytes) {
                    if eid != m.eid_resp {
                        st.unapplied_seteid_other += 1;
                    }
                }
            }
            (Op::Decode { bytes }, Obs::Dec(d)) => {
                if let Dec::Panic(_) = d {
                    st.panics += 1;
                }
                if let Some(eid) = looks_like_set_eid(bytes) {
                    if eid != m.eid_resp {
                        st.unapplied_seteid_other += 1;
                    }
                }
            }
            (Op::GetLength { .. }, _) => {}
            (Op::SetReqEid(v), _) => m.eid_req = *v,
            (Op::SetRespEid(v), _) => m.eid_resp = *v,
            (Op::SetUuid(u), _) => {
                m.uuid = *u;
                st.uuid_updates += 1;
                if st.uuid_updates >= 2 && traffic_since_uuid {
                    st.traffic_between_uuid_updates = true;
                }
                traffic_since_uuid = false;
            }
            (Op::Encode { call, .. }, Obs::Enc { enc, buf }) => {
                // direct encodes of the EID-reporting responses (C13)
                if let Enc::Ok(n) = enc {
                    if *n >= 15 && *n <= buf.len() {
                        match call {
                            EncCall::RespGetEndpointId { cc: 0, .. } => {
                                st.eid_reports_checked += 1;
                                if buf[12] != m.eid_resp {
                                    out.push(Report { prop: "C13", sig: "C13:get_endpoint_id:encoder_reports_wrong_eid".into(), detail: format!("step {}: the Get Endpoint ID response encoder reports EID {:#04x}, the response half's EID is {:#04x}", i, buf[12], m.eid_resp) });
                                }
                            }
                            EncCall::RespSetEndpointId { cc: 0, .. } => {
                                st.eid_reports_checked += 1;
                                if buf[13] != m.eid_resp {
                                    out.push(Report { prop: "C13", sig: "C13:set_endpoint_id:encoder_reports_wrong_eid".into(), detail: format!("step {}: the Set Endpoint ID response encoder reports EID {:#04x}, the response half's EID is {:#04x}", i, buf[13], m.eid_resp) });
                                }
                            }
                            _ => {}
                        }
                    }
                }
                let _ = crc8; // (PEC of direct encodes is C03's business)
            }
            _ => {}
        }
        // the accessors of both halves after every step
        let (rq, rs) = (sut::req_eid(&ctx), sut::resp_eid(&ctx));
        if rq != m.eid_req || rs != m.eid_resp {
            let kind = match op {
                Op::Process { bytes, .. } => {
                    let f = refmodel::ref_decode(bytes);
                    if matches!(f.verdict, Verdict::Accept { .. }) && f.control && f.rq && f.cmd == 0x01 {
                        format!("after_set_eid_op_{}", bytes[11].min(4))
                    } else if matches!(f.verdict, Verdict::Accept { .. } | Verdict::AcceptOrLenReject { .. }) {
                        "after_other_accepted_packet".to_string()
                    } else {
                        "after_rejected_packet".to_string()
                    }
                }
                Op::Decode { .. } => "after_decode_only".to_string(),
                Op::GetLength { .. } => "after_get_length".to_string(),
                Op::SetReqEid(_) | Op::SetRespEid(_) => "after_accessor".to_string(),
                Op::SetUuid(_) => "after_set_uuid".to_string(),
                Op::Encode { .. } => "after_encode".to_string(),
            };
            out.push(Report {
                prop: "C13",
                sig: format!("C13:eid_mismatch:{}", kind),
                detail: format!("step {} ({}): accessors report (request half {:#04x}, response half {:#04x}); the last assigned/stored EIDs are ({:#04x}, {:#04x}); op = {:?}", i, kind, rq, rs, m.eid_req, m.eid_resp, op),
            });
            // continue from the SUT's state so that one slip is reported once
            m.eid_req = rq;
            m.eid_resp = rs;
        }
    }
    Trace { reports: out, stats: st }
}
