//! C19 — wire code points map to the right enumeration values.

use crate::calls::*;
use crate::engine::*;
use crate::gen;
use crate::sut::{self, CtxStore};
use libmctp::base_packet::MessageType;
use libmctp::control_packet::{CommandCode, CompletionCode};
use proptest::prelude::*;
use serde::{Deserialize, Serialize};

#[derive(Clone, Debug, Serialize, Deserialize, PartialEq, Eq, Hash)]
pub enum Case {
    Command { byte: u8 },
    MsgType { byte: u8 },
    /// completion codes: only 0..=5 are inside the claim
    Completion { byte: u8 },
    /// all 518 conversions again after some context of this process has seen
    /// traffic: the conversions are functions of the byte alone
    AfterTraffic { cfg: CtxCfg, hist: Vec<Op> },
    /// conversion `kind` (0 command, 1 message type, 2 completion code) of `first`,
    /// then every conversion of every other byte: a conversion must not depend on
    /// what was converted before it
    Pairs { kind: u8, first: u8 },
}

/// Pair and after-traffic cases run alone; single conversions share the lock.
static CONVERSIONS: std::sync::RwLock<()> = std::sync::RwLock::new(());

pub struct C19;

/// DSP0236 Table 12 (command codes), hand-written.
const COMMANDS: [(u8, &str); 21] = [
    (0x00, "Reserved"),
    (0x01, "SetEndpointID"),
    (0x02, "GetEndpointID"),
    (0x03, "GetEndpointUUID"),
    (0x04, "GetMCTPVersionSupport"),
    (0x05, "GetMessageTypeSupport"),
    (0x06, "GetVendorDefinedMessageSupport"),
    (0x07, "ResolveEndpointID"),
    (0x08, "AllocateEndpointIDs"),
    (0x09, "RoutingInformationUpdate"),
    (0x0A, "GetRoutingTableEntries"),
    (0x0B, "PrepareForEndpointDiscovery"),
    (0x0C, "EndpointDiscovery"),
    (0x0D, "DiscoveryNotify"),
    (0x0E, "GetNetworkID"),
    (0x0F, "QueryHop"),
    (0x10, "ResolveUUID"),
    (0x11, "QueryRateLimit"),
    (0x12, "RequestTXRateLimit"),
    (0x13, "UpdateRateLimit"),
    (0x14, "QuerySupportedInterfaces"),
];

/// DSP0239 message types supported by the library.
const MSG_TYPES: [(u8, &str); 5] = [
    (0x00, "MCtpControl"),
    (0x05, "SpdmOverMctp"),
    (0x06, "SecuredMessages"),
    (0x7E, "VendorDefinedPCI"),
    (0x7F, "VendorDefinedIANA"),
];

/// DSP0236 Table 13 (completion codes 0-5).
const COMPLETIONS: [(u8, &str); 6] = [
    (0x00, "Success"),
    (0x01, "Error"),
    (0x02, "ErrorInvalidData"),
    (0x03, "ErrorInvalidLength"),
    (0x04, "ErrorNotReady"),
    (0x05, "ErrorUnsupportedCmd"),
];

fn cc_num(c: &CompletionCode) -> u8 {
    match c {
        CompletionCode::Success => 0,
        CompletionCode::Error => 1,
        CompletionCode::ErrorInvalidData => 2,
        CompletionCode::ErrorInvalidLength => 3,
        CompletionCode::ErrorNotReady => 4,
        CompletionCode::ErrorUnsupportedCmd => 5,
    }
}

impl Prop for C19 {
    type Case = Case;
    fn id(&self) -> &'static str {
        "C19"
    }
    fn rule(&self) -> String {
        "enumerated completely (the conversions take one byte and nothing else): all 256 byte values through CommandCode::from and MessageType::from, bytes 0..5 through CompletionCode::from, each result compared by numeric value (`as u8`) and Debug name with a hand-written DSP0236/DSP0239 table; every defined variant is converted back (`as u8` then from) and must return itself. non-trivial = a defined code point (21 command codes, 5 message types, 6 completion codes); all cases are distinct by construction. also enumerated: every ordered pair of conversions (one right after the other). generated in addition: the same 518 conversions after a random history (processed packets incl. plausible responses, decodes, encodes, accessor calls) on a random context of the same process - they must not depend on anything but the byte".into()
    }
    fn assumptions(&self) -> Vec<String> {
        vec!["completion-code bytes 6..255 are outside the claim (the conversion is not total there; the decoder guards it, see C10)".into()]
    }
    fn strategy(&self, _tier: Tier) -> BoxedStrategy<Case> {
        (gen::ctx_cfg_maybe_no_vendor(), gen::prior_history(4)).prop_map(|(cfg, hist)| Case::AfterTraffic { cfg, hist }).boxed()
    }
    fn budget(&self, tier: Tier) -> u64 {
        match tier {
            Tier::Quick => 40_000,
            Tier::Thorough => 1_000_000,
        }
    }
    fn fully_exhaustive(&self) -> bool {
        true
    }
    fn required_labels(&self) -> Vec<&'static str> {
        vec!["command_defined", "command_undefined", "msgtype_defined", "msgtype_undefined", "completion", "after_traffic", "after_other_conversions"]
    }
    fn enumerate(&self, _tier: Tier, shard: usize, nshards: usize, f: &mut dyn FnMut(Case)) {
        for b in 0..=255u32 {
            if (b as usize) % nshards != shard {
                continue;
            }
            f(Case::Command { byte: b as u8 });
            f(Case::MsgType { byte: b as u8 });
            f(Case::Pairs { kind: 0, first: b as u8 });
            f(Case::Pairs { kind: 1, first: b as u8 });
            if b <= 5 {
                f(Case::Completion { byte: b as u8 });
                f(Case::Pairs { kind: 2, first: b as u8 });
            }
        }
    }
    fn enumerated_desc(&self, _tier: Tier) -> Option<String> {
        Some("all 256 bytes x {CommandCode::from, MessageType::from} and bytes 0..5 x CompletionCode::from: 518 cases, the property's whole domain; and each of those 518 conversions immediately followed by each of the 518 (268 324 ordered pairs, run without other conversions of this process in between)".into())
    }
    fn run(&self, case: &Case) -> CaseResult {
        match case {
            Case::AfterTraffic { .. } | Case::Pairs { .. } => {
                let _alone = CONVERSIONS.write().unwrap_or_else(|e| e.into_inner());
                check_one(case)
            }
            _ => {
                let _shared = CONVERSIONS.read().unwrap_or_else(|e| e.into_inner());
                check_one(case)
            }
        }
    }
}

fn check_one(case: &Case) -> CaseResult {
    {
        let mut r = CaseResult::default();
        match case {
            Case::Pairs { kind, first } => {
                r.label("after_other_conversions");
                r.nontrivial = true;
                let mk = |k: u8, b: u8| match k {
                    0 => Case::Command { byte: b },
                    1 => Case::MsgType { byte: b },
                    _ => Case::Completion { byte: b },
                };
                'outer: for second in 0..=255u8 {
                    for k2 in 0..3u8 {
                        if k2 == 2 && second > 5 {
                            continue;
                        }
                        let a = check_one(&mk(*kind, *first));
                        let b = check_one(&mk(k2, second));
                        for f in a.failures {
                            r.fail(f.sig, f.detail);
                        }
                        for f in b.failures {
                            r.fail(format!("{}:after_other_conversions", f.sig), format!("right after converting {:#04x} (kind {}): {}", first, kind, f.detail));
                        }
                        if !r.failures.is_empty() {
                            break 'outer;
                        }
                    }
                }
            }
            Case::AfterTraffic { cfg, hist } => {
                r.label("after_traffic");
                r.nontrivial = !hist.is_empty();
                // one such case at a time in this process, so that state kept outside
                // the contexts is attributed to the history that created it
                // the conversions must be right before the history as well; if they
                // are not, earlier cases of this process have left something behind
                // and this case cannot tell what its own history did (separate
                // signature, so that shrinking keeps the history that matters)
                for b in 0..=255u8 {
                    let pre = [check_one(&Case::Command { byte: b }), check_one(&Case::MsgType { byte: b })];
                    if let Some(f) = pre.iter().flat_map(|x| x.failures.iter()).next() {
                        r.fail(format!("{}:process_state_left_by_earlier_calls", f.sig), format!("before this case's history ran (state left behind by earlier library calls of this process): {}", f.detail));
                        return r;
                    }
                }
                let store = CtxStore::new(cfg);
                let mut ctx = store.ctx();
                for op in hist {
                    let _ = sut::apply_op(&mut ctx, op);
                }
                for b in 0..=255u8 {
                    let mut sub = vec![check_one(&Case::Command { byte: b }), check_one(&Case::MsgType { byte: b })];
                    if b <= 5 {
                        sub.push(check_one(&Case::Completion { byte: b }));
                    }
                    for s in sub {
                        for f in s.failures {
                            r.fail(format!("{}:after_traffic", f.sig), format!("after a history of {} calls on some context: {}", hist.len(), f.detail));
                        }
                    }
                    if !r.failures.is_empty() {
                        break;
                    }
                }
            }
            Case::Command { byte } => {
                let got = CommandCode::from(*byte);
                let name = format!("{:?}", got);
                let num = got as u8;
                let (wnum, wname) = COMMANDS.iter().find(|(c, _)| c == byte).map(|(c, n)| (*c, *n)).unwrap_or((0xFF, "Unknown"));
                let defined = wname != "Unknown";
                r.nontrivial = defined;
                r.label(if defined { "command_defined" } else { "command_undefined" });
                if num != wnum || name != wname {
                    r.fail(format!("C19:command:{:#04x}", byte), format!("CommandCode::from({:#04x}) = {} ({:#04x}), want {} ({:#04x})", byte, name, num, wname, wnum));
                }
                if defined {
                    // the variant converts back to itself
                    let back = CommandCode::from(num);
                    if back != got {
                        r.fail(format!("C19:command_roundtrip:{:#04x}", byte), format!("{:?} as u8 = {:#04x} converts back to {:?}", got, num, back));
                    }
                }
            }
            Case::MsgType { byte } => {
                let got = MessageType::from(*byte);
                let name = format!("{:?}", got);
                let num = crate::sut::mt_u8(&got);
                let as_num = got as u8;
                let (wnum, wname) = MSG_TYPES.iter().find(|(c, _)| c == byte).map(|(c, n)| (*c, *n)).unwrap_or((0xFF, "Invalid"));
                let defined = wname != "Invalid";
                r.nontrivial = defined;
                r.label(if defined { "msgtype_defined" } else { "msgtype_undefined" });
                if num != wnum || as_num != wnum || name != wname {
                    r.fail(format!("C19:msgtype:{:#04x}", byte), format!("MessageType::from({:#04x}) = {} ({:#04x}), want {} ({:#04x})", byte, name, as_num, wname, wnum));
                }
                if defined && MessageType::from(as_num) != MessageType::from(*byte) {
                    r.fail(format!("C19:msgtype_roundtrip:{:#04x}", byte), format!("{} as u8 = {:#04x} does not convert back to itself", name, as_num));
                }
            }
            Case::Completion { byte } => {
                r.label("completion");
                if *byte > 5 {
                    return r;
                }
                r.nontrivial = true;
                let got = match crate::sut::trap(|| CompletionCode::from(*byte)) {
                    Ok(g) => g,
                    Err(m) => {
                        r.fail(format!("C19:completion:{:#04x}", byte), format!("CompletionCode::from({:#04x}) panicked: {}", byte, m));
                        return r;
                    }
                };
                let name = format!("{:?}", got);
                let num = cc_num(&got);
                let as_num = got as u8;
                let (wnum, wname) = COMPLETIONS[*byte as usize];
                if num != wnum || as_num != wnum || name != wname {
                    r.fail(format!("C19:completion:{:#04x}", byte), format!("CompletionCode::from({:#04x}) = {} ({:#04x}), want {} ({:#04x})", byte, name, as_num, wname, wnum));
                }
            }
        }
        r
    }
}
