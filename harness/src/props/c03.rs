//! C03 — every encoded packet ends with the correct SMBus PEC.

use super::common::*;
use crate::calls::*;
use crate::crc::crc8;
use crate::engine::*;
use crate::gen;
use crate::refmodel::{self, RefEnc};
use crate::sut::Enc;
use proptest::prelude::*;

pub struct C03;

impl Prop for C03 {
    type Case = PktCase;
    fn id(&self) -> &'static str {
        "C03"
    }
    fn rule(&self) -> String {
        "generated: responses produced by process_packet for forged requests (any command, instance id, transport flags) and every encoder (17 requests, 6 responses, vendor_defined, the four trait-level writers) x full-range arguments x 7-bit addresses x EID state, bodies from empty to the frame limit (packet lengths 12..259). oracle: independent bitwise CRC-8 (poly 0x07, init 0). non-trivial = the encoder returned Ok; distinct by hash of (environment, call)".into()
    }
    fn assumptions(&self) -> Vec<String> {
        vec!["7-bit addresses; arguments within documented shapes".into()]
    }
    fn strategy(&self, _tier: Tier) -> BoxedStrategy<PktCase> {
        prop_oneof![
            5 => gen::enc_pair(gen::addr7().boxed(), gen::enc_call(false, false, true)).prop_map(|(env, call)| PktCase::Enc(EncCase { env, call })),
            1 => gen::resp_case().prop_map(PktCase::Resp),
        ]
        .boxed()
    }
    fn budget(&self, tier: Tier) -> u64 {
        match tier {
            Tier::Quick => 600_000,
            Tier::Thorough => 10_000_000,
        }
    }
    fn required_labels(&self) -> Vec<&'static str> {
        vec!["len12-15", "len16-31", "len32-63", "len64-127", "len128-255", "len256-259", "process_packet_response", "response_to_request_with_unrelated_source_address"]
    }
    fn enumerate(&self, tier: Tier, shard: usize, nshards: usize, f: &mut dyn FnMut(PktCase)) {
        let mut idx = 0usize;
        super::enumer::for_each_enc_case(tier, false, false, true, &mut |env, call| {
            idx += 1;
            if idx % nshards == shard {
                f(PktCase::Enc(EncCase { env, call }));
            }
        });
    }
    fn enumerated_desc(&self, _tier: Tier) -> Option<String> {
        Some(ENC_ENUM_DESC.to_string())
    }
    fn run(&self, case: &PktCase) -> CaseResult {
        let mut r = CaseResult::default();
        let (buf, len, kind) = match case {
            PktCase::Enc(case) => {
                // labels come from the reference model so that generator health does
                // not depend on the behaviour of the code under test
                if let RefEnc::Packet(p) = refmodel::ref_encode(&case.call, case.env.eid_resp) {
                    let extra = if p.exact { 0 } else { 3 };
                    r.label(len_bucket(p.body.len() + 10 + extra));
                }
                let (e, buf) = encode_in(&case.env, &case.call, BIG, |_| 0x5A);
                let Enc::Ok(len) = e else { return r };
                (buf, len, case.call.kind())
            }
            PktCase::Resp(c) => {
                r.label("process_packet_response");
                let Some(p) = produce_response_opt(c, false) else { return r };
                if c.req.len() > 6 && c.req[3] != (((c.req[6] & 0x7F) << 1) | 1) {
                    r.label("response_to_request_with_unrelated_source_address");
                }
                (p.buf, p.len, p.kind)
            }
        };
        if len < 2 || len > buf.len() {
            return r;
        }
        r.nontrivial = true;
        let want = crc8(&buf[..len - 1]);
        if buf[len - 1] != want || crc8(&buf[..len]) != 0 {
            r.fail(
                format!("C03:{}:pec", kind),
                format!("packet {} ends with {:#04x}, CRC-8 of the preceding {} bytes is {:#04x}", hex(&buf[..len]), buf[len - 1], len - 1, want),
            );
        }
        r
    }
}
