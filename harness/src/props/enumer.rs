//! Enumerated (exhaustive) sub-domains shared by several properties.  These
//! complement the generated cases: where a parameter space is small it is swept
//! completely instead of sampled.

use crate::calls::*;
use crate::engine::Tier;
use crate::refmodel;

fn pat(n: usize, seed: u8) -> Vec<u8> {
    (0..n).map(|i| (i as u8).wrapping_mul(37).wrapping_add(seed) | 1).collect()
}

/// Every encoder call of the enumerated sub-domains.
/// `invalid`: include documented-invalid arguments (EID 0x00/0xFF, 8-10 routing
/// entries, 31-34 message types, vendor formats 2..255);
/// `over`: include bodies beyond the frame limit;
/// `control`: include the generic trait-level control writer.
pub fn for_each_enc_call(tier: Tier, invalid: bool, over: bool, control: bool, f: &mut dyn FnMut(EncCall)) {
    use EncCall::*;
    let thorough = tier == Tier::Thorough;
    // ---- requests without parameters
    for c in [ReqGetEndpointId, ReqGetEndpointUuid, ReqGetMsgTypes, ReqPrepareDiscovery, ReqEndpointDiscovery, ReqDiscoveryNotify, ReqGetNetworkId, ReqQueryRateLimit] {
        f(c);
    }
    // ---- every value of every single-byte parameter
    for op in 0..4u8 {
        for eid in 0..=255u8 {
            if !invalid && (eid == 0 || eid == 0xFF) {
                continue;
            }
            f(ReqSetEndpointId { op, eid });
        }
    }
    for q in 0..5u8 {
        f(ReqGetVersion { query: q });
    }
    for v in 0..=255u8 {
        f(ReqGetVendorSupport { sel: v });
        f(ReqResolveEid { eid: v });
        f(ReqGetRoutingTable { handle: v });
        for mt in 0..6u8 {
            f(ReqQueryHop { eid: v, mt });
        }
        f(ReqResolveUuid { uuid: [0x10, 0x21, 0x32, 0x43, 0x54, 0x65, 0x76, 0x87, 0x98, 0xA9, 0xBA, 0xCB, 0xDC, 0xED, 0xFE, 0x0F], handle: v });
    }
    for i in 0..16usize {
        let mut u = [0u8; 16];
        u[i] = 0xFF;
        f(ReqResolveUuid { uuid: u, handle: i as u8 });
    }
    // ---- Allocate Endpoint IDs: the two byte parameters
    for op in 0..3u8 {
        if thorough {
            for pool in 0..=255u8 {
                for start in 0..=255u8 {
                    f(ReqAllocateEids { op, pool, start });
                }
            }
        } else {
            for a in 0..=255u8 {
                f(ReqAllocateEids { op, pool: a, start: 0x5A });
                f(ReqAllocateEids { op, pool: 0xA5, start: a });
                f(ReqAllocateEids { op, pool: a, start: !a });
            }
        }
    }
    // ---- routing entries: every count
    let maxn = if invalid { 10 } else { 7 };
    for n in 0..=maxn {
        let entries: Vec<[u8; 4]> = (0..n).map(|i| [0xF0 | i as u8, 0x10 + i as u8, 0x80 | (i as u8 * 3), 0xFF - i as u8]).collect();
        f(ReqRoutingUpdate { entries });
    }
    // ---- vendor defined: every format byte, every body length
    for fmt in 0..=255u8 {
        if !invalid && fmt > 1 {
            break;
        }
        f(ReqVendor { format: fmt, data: 0x1122_3344, numeric: 7, msg: vec![] });
        f(ReqVendor { format: fmt, data: 0xA1B2_C3D4, numeric: 7, msg: vec![9, 8, 7] });
    }
    let vmax = if over { 262 } else { 247 };
    for n in 0..=vmax {
        if over || n <= 247 {
            f(ReqVendor { format: 0, data: 0xA1B2_C3D4, numeric: 0, msg: pat(n, 3) });
        }
        if over || n <= 245 {
            f(ReqVendor { format: 1, data: 0xA1B2_C3D4, numeric: 0, msg: pat(n, 5) });
        }
    }
    // ---- trait-level writers: every total body length, with and without header
    let bmax = if over { 262 } else { refmodel::MAX_BODY };
    for half in [Half::Req, Half::Resp] {
        for n in 0..=bmax {
            let plain = pat(n, 11);
            let (h, d) = if n >= 3 { (Some(pat(3, 1)), pat(n - 3, 13)) } else { (Some(vec![]), pat(n, 13)) };
            f(TraitPci { half, header: None, data: plain.clone() });
            f(TraitIana { half, header: h.clone(), data: d.clone() });
            f(TraitSpdm { half, secured: false, header: None, data: plain.clone() });
            f(TraitSpdm { half, secured: true, header: h.clone(), data: d.clone() });
            if control {
                f(TraitControl { half, header: h, data: d });
            }
        }
    }
    if over {
        // long additional headers (where a header length kept in 8 bits would wrap) with little data
        for hl in [240usize, 247, 248, 249, 250, 251, 254, 255, 256, 257, 258, 259, 260, 262, 300, 511, 512, 513, 768, 65_535, 65_536, 65_537] {
            for dl in [0usize, 1, 5] {
                let h = Some(vec![0x6B; hl]);
                let d = vec![0xB6; dl];
                f(TraitControl { half: Half::Req, header: h.clone(), data: d.clone() });
                f(TraitPci { half: Half::Resp, header: h.clone(), data: d.clone() });
                f(TraitIana { half: Half::Req, header: h.clone(), data: d.clone() });
                f(TraitSpdm { half: Half::Resp, secured: dl & 1 == 0, header: h, data: d });
            }
        }
        // bodies around 2^16 (where a byte count kept in 16 bits would wrap)
        for n in (65_500usize..=65_830).step_by(3) {
            f(ReqVendor { format: 0, data: 0x1234, numeric: 0, msg: vec![0x5A; n] });
            f(ReqVendor { format: 1, data: 0x0102_0304, numeric: 0, msg: vec![0xA5; n] });
            f(TraitSpdm { half: Half::Req, secured: false, header: None, data: vec![0x3C; n] });
            f(TraitControl { half: Half::Resp, header: Some(vec![0, 2]), data: vec![0xC3; n] });
        }
    }
    if invalid {
        // very long routing entry lists (where an entry count kept in 8 bits would wrap)
        for n in [11usize, 31, 32, 63, 64, 127, 128, 254, 255, 256, 257, 258, 259, 260, 261, 262, 263, 264, 511, 512, 513, 519, 768, 1024, 65_536, 65_537] {
            let entries: Vec<[u8; 4]> = (0..n).map(|i| [i as u8, (i >> 8) as u8, 0x55, 0xAA]).collect();
            f(ReqRoutingUpdate { entries });
        }
        for n in [35usize, 63, 64, 255, 256, 257, 286, 287, 288, 512, 65_536] {
            f(RespMsgTypes { cc: 0, types: vec![0x7E; n] });
        }
    }
    // ---- responses: every completion code x enum combination
    for cc in 0..=5u8 {
        for assign in 0..2u8 {
            for alloc in 0..3u8 {
                f(RespSetEndpointId { cc, assign, alloc });
            }
        }
        for etype in 0..2u8 {
            for idtype in 0..4u8 {
                for fair in [false, true] {
                    f(RespGetEndpointId { cc, etype, idtype, fairness: fair });
                }
            }
        }
        f(RespUuid { cc, uuid: [0; 16] });
        f(RespUuid { cc, uuid: [0xFF; 16] });
        f(RespUuid { cc, uuid: [1, 2, 3, 4, 5, 6, 7, 8, 9, 10, 11, 12, 13, 14, 15, 16] });
        f(RespVersion { cc });
        let tmax = if invalid { 34 } else { 30 };
        for n in 0..=tmax {
            f(RespMsgTypes { cc, types: pat(n, 0x40) });
        }
        for n in 0..=7usize {
            for sel in [0u8, 1, 0x7F, 0xFE, 0xFF] {
                f(RespVendorSupport { cc, selector: sel, vendor_id: pat(n, 0x20) });
            }
        }
    }
    for sel in 0..=255u8 {
        f(RespVendorSupport { cc: 0, selector: sel, vendor_id: vec![0, 0x12, 0x34, 0x00, 0xAB] });
    }
}

/// Environments for the enumerated encoder calls: a fixed pair of addresses;
/// for the EID-reporting response encoders every stored EID value.
pub fn for_each_enc_case(tier: Tier, invalid: bool, over: bool, control: bool, f: &mut dyn FnMut(EncEnv, EncCall)) {
    let base = EncEnv { addr: 0x23, dest: 0x34, eid_req: 0, eid_resp: 0, eid_via_process: false, hist: vec![] };
    let alt = EncEnv { addr: 0x7F, dest: 0x00, eid_req: 0x11, eid_resp: 0xEE, eid_via_process: false, hist: vec![] };
    let mut k = 0u32;
    for_each_enc_call(tier, invalid, over, control, &mut |c| {
        k += 1;
        f(if k % 2 == 0 { base.clone() } else { alt.clone() }, c);
    });
    for eid in 0..=255u8 {
        for via in [false, true] {
            let env = EncEnv { addr: 0x23, dest: 0x34, eid_req: eid, eid_resp: eid, eid_via_process: via, hist: vec![] };
            f(env.clone(), EncCall::RespSetEndpointId { cc: 0, assign: eid & 1, alloc: eid % 3 });
            f(env, EncCall::RespGetEndpointId { cc: 0, etype: eid & 1, idtype: eid & 3, fairness: eid & 4 != 0 });
        }
    }
}

/// Control messages: every control byte x command x completion code x data
/// length (0..=`maxlen`) x PEC valid/invalid, behind a valid header.
/// Quick tier: a representative subset of control bytes and completion codes.
pub fn for_each_control_packet(tier: Tier, shard: usize, nshards: usize, f: &mut dyn FnMut(Vec<u8>)) {
    let thorough = tier == Tier::Thorough;
    let ctrl_bytes: Vec<u8> = if thorough { (0..=255u8).collect() } else { vec![0x00, 0x1F, 0x20, 0x40, 0x80, 0x9F, 0xA5, 0xC0, 0xE0, 0xFF] };
    let ccs: Vec<u8> = if thorough { vec![0, 1, 2, 3, 4, 5, 6, 0x80, 0xFF] } else { vec![0, 1, 5, 6, 0xFF] };
    let maxlen = if thorough { 20 } else { 18 };
    for &ctrl in &ctrl_bytes {
        for cmd in 0..=255u8 {
            if (cmd as usize) % nshards != shard {
                continue;
            }
            let rq = ctrl & 0x80 != 0;
            let cc_list: &[u8] = if rq { &[0u8][..] } else { &ccs[..] };
            for &cc in cc_list {
                for dl in 0..=maxlen {
                    let mut v = vec![0x46, 0x0F, 0, 0x69, 0x01, 0x23, 0x34, 0xC8, 0x00, ctrl, cmd];
                    if !rq {
                        v.push(cc);
                    }
                    for i in 0..dl {
                        v.push(0x30 + i as u8);
                    }
                    v.push(0);
                    let n = v.len();
                    v[2] = (n - 4) as u8;
                    refmodel::fix_pec(&mut v);
                    f(v.clone());
                    if dl % 3 == 0 {
                        v[n - 1] ^= 0x01 << (dl % 8);
                        f(v);
                    }
                }
            }
        }
    }
}

/// Header bytes: every value of the transport-header first byte x every
/// message-type byte, for a short control request and a short vendor body.
pub fn for_each_header_packet(shard: usize, nshards: usize, f: &mut dyn FnMut(Vec<u8>)) {
    for b4 in 0..=255u8 {
        if (b4 as usize) % nshards != shard {
            continue;
        }
        for b8 in 0..=255u8 {
            for tail in [&[0x80u8, 0x02][..], &[0x00, 0x04, 0x00, 1, 0xF1, 0xF3, 0xF1, 0x00][..], &[0x12, 0x34, 0x56][..]] {
                let mut v = vec![0x46, 0x0F, 0, 0x69, b4, 0x23, 0x34, 0xC8, b8];
                v.extend_from_slice(tail);
                v.push(0);
                let n = v.len();
                v[2] = (n - 4) as u8;
                refmodel::fix_pec(&mut v);
                f(v);
            }
        }
    }
}
