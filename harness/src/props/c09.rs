//! C09 — the decoder accepts exactly the well-formed packets and its errors are truthful.

use crate::calls::*;
use crate::engine::*;
use crate::gen;
use crate::refmodel::{self, Facts, Verdict};
use crate::sut::{self, CtxStore, Dec, ErrK};
use proptest::prelude::*;
use serde::{Deserialize, Serialize};

#[derive(Clone, Debug, Serialize, Deserialize, PartialEq, Eq, Hash)]
pub struct Case {
    #[serde(with = "hexv")]
    pub bytes: Vec<u8>,
    pub cfg: CtxCfg,
    pub hist: Vec<Op>,
}

pub struct C09;

/// Short description of the input class (for signatures and labels).
pub fn class_of(f: &Facts, b: &[u8]) -> String {
    if f.n < 10 {
        return "short".into();
    }
    if !f.hdr_ok {
        return "bad_transport_header".into();
    }
    if !f.type_ok {
        return if b[8] & 0x80 != 0 { "ic_bit_set".into() } else { "unsupported_type".into() };
    }
    if !f.control {
        return format!("type_{:02x}", f.ty);
    }
    if f.n < 12 {
        return "ctrl_short".into();
    }
    let cmd = if f.cmd <= 0x14 { format!("{:02x}", f.cmd) } else { "unk".into() };
    if f.rq {
        format!("req_cmd_{}", cmd)
    } else {
        match f.cc {
            None => "resp_short".into(),
            Some(0) => format!("resp_cmd_{}", cmd),
            Some(c) if c <= 5 => "resp_cc_1to5".into(),
            Some(_) => "resp_cc_undefined".into(),
        }
    }
}

/// Is the error the decoder returned a true statement about the input?
fn untruthful(f: &Facts, b: &[u8], ty: u8, err: &ErrK, len_dontcare: bool) -> Option<&'static str> {
    match err {
        ErrK::BadPec if f.pec_ok => return Some("InvalidPEC_but_pec_is_right"),
        ErrK::BadLen if !(f.len_wrong || len_dontcare) => return Some("InvalidRequestDataLength_but_length_is_right"),
        ErrK::Unsuccessful(c) => {
            let carries = f.control && !f.rq && f.cc == Some(*c) && *c != 0;
            if !carries {
                return Some("UnsuccessfulCompletionCode_not_carried");
            }
        }
        _ => {}
    }
    if ty == 0xFF {
        if f.hdr_ok && f.type_ok {
            return Some("type_Invalid_but_header_is_supported");
        }
    } else if !(f.n >= 10 && f.type_ok && ty == b[8]) {
        return Some("error_names_a_message_type_the_packet_does_not_have");
    }
    None
}

impl Prop for C09 {
    type Case = Case;
    fn id(&self) -> &'static str {
        "C09"
    }
    fn rule(&self) -> String {
        "generated: byte strings from (i) a frame grammar with every header byte drawn from {valid, other values}, message types {5 supported, IC-set, unsupported, random}, control byte (rq,d,rsvd,instance) random, commands 0..0x15 + random, completion codes {0, 1..5, 6..255}, data lengths around each fixed length (L-1, L, L+1, 0, random), PEC valid w.p. 0.8; (ii) reference-encoded valid packets, also with one byte changed (PEC repaired or not) or truncated; (iii) random bytes. Each is decoded on a fresh default context and on a random context after a random history. oracle: independent reference decoder (accept/reject verdict, exact payload range, truthfulness of the error, equality of the two outcomes). non-trivial = at least 12 bytes with a valid transport header and a supported type (reaches type-specific logic); distinct by hash of the bytes+context".into()
    }
    fn assumptions(&self) -> Vec<String> {
        vec![
            "outside the claim (any rejection accepted, acceptance flagged): inputs too short to hold the headers; completion codes 6..255".into(),
            "responses to Get Endpoint ID, Allocate Endpoint IDs and Routing Information Update: either accepted with the exact payload range or rejected with a length error".into(),
            "a panic on an input the reference rejects is left to C10; a panic on an input it accepts is a C09 violation".into(),
        ]
    }
    fn strategy(&self, _tier: Tier) -> BoxedStrategy<Case> {
        (gen::recv_input(), gen::ctx_cfg_maybe_no_vendor(), prop_oneof![2 => Just(Vec::new()).boxed(), 1 => gen::prior_history(4)], 0u8..16)
            .prop_map(|(bytes, cfg, mut hist, k)| {
                match k {
                    // receive flow: the length probe is called on the same bytes first
                    0 | 1 => hist.push(Op::GetLength { bytes: bytes.clone() }),
                    // the very same packet was received just before (a retransmission)
                    2 => hist.push(Op::Decode { bytes: bytes.clone() }),
                    3 => hist.push(Op::Process { bytes: bytes.clone(), cap: 64, fill: 0 }),
                    // ... or the same packet with other SOM / EOM / sequence / tag bits
                    4 | 5 if bytes.len() >= 10 => {
                        let mut b = bytes.clone();
                        b[7] ^= if k == 4 { 0x40 } else { 0xC0 };
                        crate::refmodel::fix_pec(&mut b);
                        hist.push(Op::Decode { bytes: b });
                    }
                    _ => {}
                }
                Case { bytes, cfg, hist }
            })
            .boxed()
    }
    fn budget(&self, tier: Tier) -> u64 {
        match tier {
            Tier::Quick => 1_000_000,
            Tier::Thorough => 16_000_000,
        }
    }
    fn required_labels(&self) -> Vec<&'static str> {
        vec![
            "verdict_accept", "verdict_reject", "verdict_anyreject", "verdict_either", "pec_bad", "len_wrong",
            "bad_transport_header", "ic_bit_set", "unsupported_type", "type_05", "type_06", "type_7e", "type_7f",
            "resp_cc_1to5", "resp_cc_undefined", "req_cmd_01", "req_cmd_08", "req_cmd_unk", "resp_cmd_01", "resp_cmd_03",
            "resp_cmd_04", "resp_cmd_02", "with_history",
        ]
    }
    fn enumerate(&self, tier: Tier, shard: usize, nshards: usize, f: &mut dyn FnMut(Case)) {
        let cfg = CtxCfg { addr: 0x5A, msg_types: vec![0x7E], vendors: vec![(1, 0x00C0FFEE, 9)] };
        super::enumer::for_each_control_packet(tier, shard, nshards, &mut |bytes| f(Case { bytes, cfg: cfg.clone(), hist: vec![] }));
        super::enumer::for_each_header_packet(shard, nshards, &mut |bytes| f(Case { bytes, cfg: cfg.clone(), hist: vec![] }));
    }
    fn enumerated_desc(&self, tier: Tier) -> Option<String> {
        Some(format!(
            "control messages behind a valid header: {} control bytes x all 256 command codes x completion codes {} x every data length 0..{} x PEC valid (and invalid for every third length); every value of the transport-header first byte x every message-type byte (65536 pairs) x 3 bodies",
            if tier == Tier::Thorough { "all 256" } else { "10 representative" },
            if tier == Tier::Thorough { "{0,1,2,3,4,5,6,0x80,0xFF}" } else { "{0,1,5,6,0xFF}" },
            if tier == Tier::Thorough { 20 } else { 18 }
        ))
    }
    fn run(&self, case: &Case) -> CaseResult {
        let mut r = CaseResult::default();
        let b = &case.bytes[..];
        let f = refmodel::ref_decode(b);
        let class = class_of(&f, b);
        r.label(intern(class.clone()));
        r.label(match f.verdict {
            Verdict::Accept { .. } => "verdict_accept",
            Verdict::Reject => "verdict_reject",
            Verdict::AnyReject(_) => "verdict_anyreject",
            Verdict::AcceptOrLenReject { .. } => "verdict_either",
        });
        if !f.pec_ok {
            r.label("pec_bad");
        }
        if f.len_wrong {
            r.label("len_wrong");
        }
        if !case.hist.is_empty() {
            r.label("with_history");
        }
        r.nontrivial = f.n >= 12 && f.hdr_ok && f.type_ok;

        let dstore = CtxStore::new(&CtxCfg::default_test());
        let dctx = dstore.ctx();
        let cstore = CtxStore::new(&case.cfg);
        let mut cctx = cstore.ctx();
        for op in &case.hist {
            let _ = sut::apply_op(&mut cctx, op);
        }
        let d1 = sut::decode(&dctx, b);
        let d2 = sut::decode(&cctx, b);
        if d1 != d2 && !d1.is_panic() && !d2.is_panic() {
            r.fail(
                format!("C09:context_dependent:{}", class),
                format!("{} decodes to {} on a default context but to {} on context {:?} after {} prior operations", hex(b), d1.brief(), d2.brief(), case.cfg, case.hist.len()),
            );
        }
        for got in [&d1, &d2] {
            let before = r.failures.len();
            match (&f.verdict, got) {
                (Verdict::Accept { ty, start, end }, g) => {
                    let want = Dec::Ok { ty: *ty, start: *start, len: end - start };
                    if g != &want {
                        let what = match g {
                            Dec::Panic(m) => format!("panic_{}", sut::panic_kind(m)),
                            Dec::Err { err, .. } => format!("rejected_{:?}", err),
                            Dec::Ok { ty: t, .. } if t != ty => "wrong_type".to_string(),
                            Dec::Ok { .. } => "wrong_payload_range".to_string(),
                        };
                        r.fail(format!("C09:wellformed_{}:{}", what, class), format!("well-formed packet {} must decode to {} but gives {}", hex(b), want.brief(), g.brief()));
                    }
                }
                (Verdict::Reject, Dec::Ok { .. }) | (Verdict::AnyReject(_), Dec::Ok { .. }) => {
                    let why = if f.n < 10 {
                        "too_short"
                    } else if !f.hdr_ok {
                        "bad_transport_header"
                    } else if !f.type_ok {
                        "unsupported_type_or_ic"
                    } else if !f.pec_ok {
                        "bad_pec"
                    } else if f.len_wrong {
                        "wrong_data_length"
                    } else if f.cc.map(|c| c != 0).unwrap_or(false) {
                        "nonzero_completion_code"
                    } else {
                        "too_short_for_control"
                    };
                    r.fail(format!("C09:accepted_malformed:{}:{}", why, class), format!("{} is not well-formed ({}) but decodes to {}", hex(b), why, got.brief()));
                }
                (Verdict::Reject, Dec::Err { ty, err }) => {
                    if let Some(u) = untruthful(&f, b, *ty, err, false) {
                        r.fail(format!("C09:untruthful:{}:{}", u, class), format!("{} is rejected with {} which does not hold of the input (pec_ok={}, len_wrong={}, cc={:?}, hdr_ok={}, type_ok={})", hex(b), got.brief(), f.pec_ok, f.len_wrong, f.cc, f.hdr_ok, f.type_ok));
                    }
                }
                (Verdict::AcceptOrLenReject { ty, start, end }, g) => match g {
                    Dec::Ok { .. } => {
                        let want = Dec::Ok { ty: *ty, start: *start, len: end - start };
                        if g != &want {
                            r.fail(format!("C09:wellformed_wrong_payload_range:{}", class), format!("{} accepted as {} but the payload is {}", hex(b), g.brief(), want.brief()));
                        }
                    }
                    Dec::Err { ty: t, err } => {
                        if let Some(u) = untruthful(&f, b, *t, err, true) {
                            r.fail(format!("C09:untruthful:{}:{}", u, class), format!("{} is rejected with {}", hex(b), g.brief()));
                        }
                    }
                    Dec::Panic(_) => {}
                },
                _ => {}
            }
            if r.failures.len() > before {
                break;
            }
        }
        r
    }
}
