//! C11 — request processing agrees with decoding and only writes a response for requests.

use crate::calls::*;
use crate::engine::*;
use crate::gen;
use crate::refmodel::{self, Verdict};
use crate::sut::{self, CtxStore, Dec};
use proptest::prelude::*;
use serde::{Deserialize, Serialize};

#[derive(Clone, Debug, Serialize, Deserialize, PartialEq, Eq, Hash)]
pub struct Case {
    #[serde(with = "hexv")]
    pub bytes: Vec<u8>,
    pub cfg: CtxCfg,
    pub hist: Vec<Op>,
    pub cap: u16,
    pub fill: u8,
    pub stride: u8,
}

pub struct C11;

pub fn prefill(cap: usize, fill: u8, stride: u8) -> Vec<u8> {
    (0..cap).map(|i| fill.wrapping_add((i as u8).wrapping_mul(stride))).collect()
}

impl Prop for C11 {
    type Case = Case;
    fn id(&self) -> &'static str {
        "C11"
    }
    fn rule(&self) -> String {
        "generated: receive-path inputs of all message types (frame grammar, reference-encoded valid packets, mutations, truncations, actionable control requests for every command, random bytes) x response buffer of 0-300 bytes (at least 64 for accepted control requests; empty and tiny buffers for everything that needs no response) pre-filled with a generated pattern x random context after a random history. Two contexts with identical configuration and history: one decodes, one processes. oracle: process_packet projects to the same (type, payload range) or the same error as decode_packet; Some(n) only for an accepted control message whose request bit is set, then n <= capacity and bytes beyond n unchanged; otherwise the whole buffer unchanged; when a response was written, the same input processed by a third identical context into a buffer of exactly that length gives the same result and bytes. non-trivial = the decoder accepted the input; distinct by hash".into()
    }
    fn assumptions(&self) -> Vec<String> {
        vec!["not demanded: that every accepted request is answered; the content of the response (C12-C15)".into(), "cases in which decode_packet itself panics are left to C10; a panic of process_packet on an input that decode_packet handles is reported here as well".into()]
    }
    fn strategy(&self, _tier: Tier) -> BoxedStrategy<Case> {
        (
            prop_oneof![4 => gen::recv_input(), 2 => gen::ref_valid_packet(), 2 => gen::actionable_request()],
            gen::ctx_cfg_extreme(),
            prop_oneof![2 => Just(Vec::new()).boxed(), 1 => gen::prior_history(4)],
            // response buffers of every size, including empty and tiny ones (see run())
            prop_oneof![4 => 64u16..=300, 1 => 0u16..64, 1 => Just(0u16), 1 => 256u16..=300],
            any::<u8>(),
            any::<u8>(),
            0u8..8,
        )
            .prop_map(|(bytes, cfg, mut hist, cap, fill, stride, k)| {
                // receive flow: the length probe is called on the same bytes first
                if k == 0 {
                    hist.push(Op::GetLength { bytes: bytes.clone() });
                }
                Case { bytes, cfg, hist, cap, fill, stride }
            })
            .boxed()
    }
    fn budget(&self, tier: Tier) -> u64 {
        match tier {
            Tier::Quick => 800_000,
            Tier::Thorough => 12_000_000,
        }
    }
    fn required_labels(&self) -> Vec<&'static str> {
        vec!["control_request", "control_response", "pci", "iana", "spdm", "secured", "rejected", "with_history", "small_response_buffer", "exact_fit_rerun"]
    }
    fn enumerate(&self, tier: Tier, shard: usize, nshards: usize, f: &mut dyn FnMut(Case)) {
        let cfg = CtxCfg { addr: 0x23, msg_types: vec![0x7E, 0x05], vendors: vec![(0, 0x1234, 0xAB), (1, 0x00C0FFEE, 9)] };
        let mut k = 0u32;
        let mut emit = |bytes: Vec<u8>| {
            k = k.wrapping_add(1);
            f(Case { bytes, cfg: cfg.clone(), hist: vec![], cap: 64 + (k % 7) as u16, fill: 0xA0 | (k % 16) as u8, stride: (k % 5) as u8 });
        };
        super::enumer::for_each_control_packet(tier, shard, nshards, &mut emit);
        super::enumer::for_each_header_packet(shard, nshards, &mut emit);
    }
    fn enumerated_desc(&self, tier: Tier) -> Option<String> {
        Some(format!(
            "the enumerated control messages of C09 ({} control bytes x 256 commands x completion codes x data lengths x PEC valid/invalid) and all 65536 (transport byte, message-type byte) pairs x 3 bodies, each processed with a pre-filled response buffer and compared with decoding",
            if tier == Tier::Thorough { "all 256" } else { "10" }
        ))
    }
    fn run(&self, case: &Case) -> CaseResult {
        let mut r = CaseResult::default();
        let b = &case.bytes[..];
        let f = refmodel::ref_decode(b);
        r.label(match &f.verdict {
            Verdict::Accept { ty, .. } | Verdict::AcceptOrLenReject { ty, .. } => match ty {
                0x00 if f.rq => "control_request",
                0x00 => "control_response",
                0x7E => "pci",
                0x7F => "iana",
                0x05 => "spdm",
                _ => "secured",
            },
            _ => "rejected",
        });
        if !case.hist.is_empty() {
            r.label("with_history");
        }
        let s1 = CtxStore::new(&case.cfg);
        let mut a = s1.ctx();
        let s2 = CtxStore::new(&case.cfg);
        let mut p = s2.ctx();
        for op in &case.hist {
            let _ = sut::apply_op(&mut a, op);
            let _ = sut::apply_op(&mut p, op);
        }
        let dec = sut::decode(&a, b);
        // a buffer shorter than 64 bytes is only used for inputs that are not
        // accepted control requests (which need no response buffer at all); C10's
        // precondition for requests is a buffer of at least 64 bytes
        let is_req = matches!(f.verdict, Verdict::Accept { ty: 0, .. }) && f.rq;
        let cap = if is_req && case.cap < 64 { 64 } else { case.cap } as usize;
        if cap < 64 {
            r.label("small_response_buffer");
        }
        let before = prefill(cap, case.fill, case.stride);
        let mut buf = before.clone();
        let pr = sut::process(&p, b, &mut buf);
        if dec.is_panic() {
            return r; // C10
        }
        if let Dec::Panic(m) = &pr.dec {
            // decoding alone returns a result, processing does not report the same: it panics
            // (C10 reports the panic as such, too)
            let class = super::c09::class_of(&f, b);
            r.fail(format!("C11:process_panicked:{}", class), format!("{}: decode_packet gives {}, process_packet panics: {}", hex(b), dec.brief(), m));
            return r;
        }
        r.nontrivial = dec.is_ok();
        let class = super::c09::class_of(&f, b);
        if pr.dec != dec {
            r.fail(format!("C11:disagree:{}", class), format!("{}: decode_packet gives {}, process_packet gives {}", hex(b), dec.brief(), pr.dec.brief()));
        }
        // a response buffer that fits the response exactly gives the same answer
        if let (Some(n), true) = (pr.resp, is_req) {
            if n <= buf.len() && n < cap {
                r.label("exact_fit_rerun");
                let s3 = CtxStore::new(&case.cfg);
                let mut q = s3.ctx();
                for op in &case.hist {
                    let _ = sut::apply_op(&mut q, op);
                }
                let mut exact = prefill(n, case.fill, case.stride);
                let pe = sut::process(&q, b, &mut exact);
                if pe.dec != dec || pe.resp != Some(n) || exact[..] != buf[..n] {
                    r.fail(format!("C11:exact_fit_response_buffer:{}", class), format!("{}: with a {}-byte response buffer process_packet gives {} / {:?}; with a buffer of exactly {} bytes it gives {} / {:?}", hex(b), cap, pr.dec.brief(), pr.resp, n, pe.dec.brief(), pe.resp));
                }
            }
        }
        match pr.resp {
            Some(n) => {
                let is_request = matches!(dec, Dec::Ok { ty: 0, .. }) && b.len() > 9 && b[9] & 0x80 != 0;
                if !is_request {
                    r.fail(format!("C11:response_to_non_request:{}", class), format!("{} is not an accepted control request (decode: {}) but process_packet reported a response of {} bytes", hex(b), dec.brief(), n));
                }
                if n > buf.len() {
                    r.fail(format!("C11:response_len_exceeds_buffer:{}", class), format!("reported response length {} exceeds the {}-byte buffer", n, buf.len()));
                } else if let Some(i) = (n..buf.len()).find(|i| buf[*i] != before[*i]) {
                    r.fail(format!("C11:wrote_beyond_response:{}", class), format!("byte {} of the response buffer changed although the reported response length is {}", i, n));
                }
            }
            None => {
                if let Some(i) = (0..buf.len()).find(|i| buf[*i] != before[*i]) {
                    r.fail(format!("C11:wrote_without_response:{}", class), format!("{}: no response reported (result {}) but byte {} of the response buffer changed from {:#04x} to {:#04x}", hex(b), pr.dec.brief(), i, before[i], buf[i]));
                }
            }
        }
        r
    }
}
