//! C16 — encoders write exactly the reported bytes and refuse documented-invalid input.

use super::common::*;
use crate::calls::*;
use crate::engine::*;
use crate::gen;
use crate::refmodel::{self, RefEnc};
use crate::sut::{self, Enc};
use proptest::prelude::*;
use serde::{Deserialize, Serialize};

#[derive(Clone, Debug, Serialize, Deserialize, PartialEq, Eq, Hash)]
pub struct Case {
    pub enc: EncCase,
    /// spare capacity beyond the packet length for the second buffer
    pub extra: u16,
    /// two different non-zero poison bytes
    pub poison_a: u8,
    pub poison_b: u8,
}

pub struct C16;

/// Number of bytes the packet of `call` would occupy if every argument were
/// encoded (used to size buffers for calls that must be refused).
pub fn wanted_len(call: &EncCall) -> usize {
    use EncCall::*;
    10 + match call {
        ReqRoutingUpdate { entries } => 3 + 4 * entries.len(),
        ReqVendor { msg, .. } => 4 + msg.len(),
        TraitControl { header, data, .. } | TraitPci { header, data, .. } | TraitIana { header, data, .. } | TraitSpdm { header, data, .. } => header.as_ref().map(|h| h.len()).unwrap_or(0) + data.len(),
        RespMsgTypes { types, .. } => 4 + types.len(),
        RespVendorSupport { vendor_id, .. } => 4 + vendor_id.len(),
        _ => 24,
    }
}

impl Prop for C16 {
    type Case = Case;
    fn id(&self) -> &'static str {
        "C16"
    }
    fn rule(&self) -> String {
        "generated: every encoder x arguments within the documented shapes plus documented-invalid arguments at and around each limit (EID 0x00/0xFF vs 0x01/0xFE; 7 vs 8..10 routing entries; 30 vs 31..64 message types; vendor format 0,1 vs 2..255) x bodies up to the frame limit x buffer capacity {exact, +1, +2, +random <= 64, large} x two different non-zero poison fills. oracle (metamorphic + validity): no panic; same length and bytes under both poisons and all capacities; bytes beyond len equal the poison; exact-capacity buffer succeeds; documented-invalid => Err(()) with the buffer untouched; every other argument that fits => Ok. non-trivial = every case (the poison is never zero); distinct by hash of the case".into()
    }
    fn assumptions(&self) -> Vec<String> {
        vec!["not demanded: behaviour with a buffer shorter than the packet, UUID slices != 16 bytes, vendor ID fields > 7 bytes".into(), "messages beyond the frame limit are checked by C04 (must not be Ok) and here only for 'no panic, buffer untouched'".into()]
    }
    fn strategy(&self, _tier: Tier) -> BoxedStrategy<Case> {
        (
            gen::enc_pair(gen::addr7().boxed(), gen::enc_call(true, true, true)),
            prop_oneof![3 => Just(0u16), 2 => Just(1u16), 1 => Just(2u16), 3 => 0u16..=64],
            1u8..=255,
            1u8..=255,
        )
            .prop_map(|((env, call), extra, poison_a, x)| {
                let mut poison_b = poison_a ^ x;
                if poison_b == 0 {
                    poison_b = poison_a ^ 0xFF;
                    if poison_b == 0 {
                        poison_b = 0x3C;
                    }
                }
                Case { enc: EncCase { env, call }, extra, poison_a, poison_b }
            })
            .boxed()
    }
    fn budget(&self, tier: Tier) -> u64 {
        match tier {
            Tier::Quick => 500_000,
            Tier::Thorough => 8_000_000,
        }
    }
    fn required_labels(&self) -> Vec<&'static str> {
        vec!["refuse_eid", "eid_boundary_ok", "refuse_entries", "entries7_ok", "refuse_types", "types30_ok", "refuse_format", "refuse_oversize", "at_frame_limit", "exact_capacity"]
    }
    fn enumerate(&self, tier: Tier, shard: usize, nshards: usize, f: &mut dyn FnMut(Case)) {
        let mut idx = 0usize;
        super::enumer::for_each_enc_case(tier, true, true, true, &mut |env, call| {
            idx += 1;
            if idx % nshards == shard {
                let extra = (idx % 5) as u16;
                f(Case { enc: EncCase { env, call }, extra, poison_a: 0xA5, poison_b: 0x3C });
            }
        });
    }
    fn enumerated_desc(&self, _tier: Tier) -> Option<String> {
        Some(format!("{}; including the documented-invalid values (EID 0x00/0xFF for all 4 operations, 8-10 routing entries, 31-34 message types, vendor formats 2..255) and bodies up to 262 bytes", ENC_ENUM_DESC))
    }
    fn run(&self, case: &Case) -> CaseResult {
        let mut r = CaseResult::default();
        r.nontrivial = true;
        let env = &case.enc.env;
        let call = &case.enc.call;
        let kind = call.kind();
        let refenc = refmodel::ref_encode(call, env.eid_resp);
        let pa = case.poison_a;
        let pb = case.poison_b;
        // large enough for whatever the call would need if it were (wrongly) encoded
        let big = (wanted_len(call) + 64).max(640);
        let (ea, bufa) = encode_in(env, call, big, |_| pa);
        if let Enc::Panic(m) = &ea {
            r.fail(format!("C16:{}:panic:{}", kind, sut::panic_kind(m)), format!("encoder panicked with a {}-byte buffer: {}", big, m));
            return r;
        }
        match refenc {
            RefEnc::Refuse(why) => {
                r.label(match why {
                    "reserved EID in Set Endpoint ID" => "refuse_eid",
                    "more routing entries than fit" => "refuse_entries",
                    "more than 30 message types" => "refuse_types",
                    "vendor ID format other than PCI or IANA" => "refuse_format",
                    _ => "refuse_oversize",
                });
                if let Enc::Ok(n) = ea {
                    // oversize messages returned as Ok are reported by C04 as well
                    r.fail(format!("C16:{}:invalid_accepted", kind), format!("{}: encoder returned Ok({})", why, n));
                }
                // "leave the buffer untouched" is stated for the documented-invalid
                // arguments; for a message that is merely too large only the refusal
                // (C04) and the absence of a panic are demanded
                if why != "message too large for the SMBus byte count" && bufa.iter().any(|b| *b != pa) {
                    let first = bufa.iter().position(|b| *b != pa).unwrap();
                    r.fail(format!("C16:{}:refused_but_wrote", kind), format!("{}: encoder returned {:?} but modified the buffer at offset {}", why, ea, first));
                }
                return r;
            }
            RefEnc::Packet(p) => {
                match call {
                    EncCall::ReqSetEndpointId { eid: 0x01 | 0xFE, .. } => r.label("eid_boundary_ok"),
                    EncCall::ReqRoutingUpdate { entries } if entries.len() == 7 => r.label("entries7_ok"),
                    EncCall::RespMsgTypes { types, .. } if types.len() == 30 => r.label("types30_ok"),
                    _ => {}
                }
                if p.exact && p.body.len() >= refmodel::MAX_BODY - 1 {
                    r.label("at_frame_limit");
                }
                r.label("exact_capacity");
                let len = match ea {
                    Enc::Ok(n) => n,
                    _ => {
                        r.fail(format!("C16:{}:valid_refused", kind), "a valid argument that fits the SMBus frame was refused with Err(())".to_string());
                        return r;
                    }
                };
                if len == 0 || len > big {
                    r.fail(format!("C16:{}:len", kind), format!("impossible length {}", len));
                    return r;
                }
                if p.exact && len != p.body.len() + 10 {
                    r.fail(format!("C16:{}:len", kind), format!("reported length {} but the packet has {} bytes", len, p.body.len() + 10));
                }
                if let Some(i) = bufa[len..].iter().position(|b| *b != pa) {
                    r.fail(format!("C16:{}:wrote_beyond_len", kind), format!("byte at offset {} (beyond the reported length {}) was modified", len + i, len));
                }
                // exact capacity, other poison
                let (eb, bufb) = encode_in(env, call, len, |_| pb);
                match eb {
                    Enc::Ok(n) if n == len => {
                        if bufb[..len] != bufa[..len] {
                            let i = (0..len).find(|i| bufa[*i] != bufb[*i]).unwrap();
                            r.fail(format!("C16:{}:content_depends_on_buffer", kind), format!("byte {} differs between two encodes of the same call into differently filled buffers ({:#04x} vs {:#04x}): a byte inside the reported length is not written", i, bufa[i], bufb[i]));
                        }
                    }
                    Enc::Ok(n) => r.fail(format!("C16:{}:len_depends_on_buffer", kind), format!("length {} with a large buffer, {} with an exact one", len, n)),
                    Enc::Err => r.fail(format!("C16:{}:exact_capacity_refused", kind), format!("a buffer of exactly {} bytes was refused", len)),
                    Enc::Panic(m) => r.fail(format!("C16:{}:exact_capacity_panic:{}", kind, sut::panic_kind(&m)), format!("a buffer of exactly {} bytes made the encoder panic: {}", len, m)),
                }
                // spare capacity, other poison
                if case.extra > 0 {
                    let cap = len + case.extra as usize;
                    let (ec, bufc) = encode_in(env, call, cap, |_| pb);
                    match ec {
                        Enc::Ok(n) if n == len => {
                            if bufc[..len] != bufa[..len] {
                                r.fail(format!("C16:{}:content_depends_on_buffer", kind), "bytes differ between buffers of different capacity".to_string());
                            }
                            if let Some(i) = bufc[len..].iter().position(|b| *b != pb) {
                                r.fail(format!("C16:{}:wrote_beyond_len", kind), format!("byte at offset {} beyond the reported length {} was modified (capacity {})", len + i, len, cap));
                            }
                        }
                        other => r.fail(format!("C16:{}:len_depends_on_buffer", kind), format!("capacity {} gave {:?}, large capacity gave Ok({})", cap, other, len)),
                    }
                }
            }
        }
        r
    }
}
