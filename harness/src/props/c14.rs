//! C14 — vendor ID sets can be enumerated completely by following selectors.

use super::endpoint::run_model;
use crate::calls::*;
use crate::engine::*;
use crate::gen;
use crate::refmodel::{self, RefEndpoint};
use crate::sut::{self, CtxStore};
use proptest::prelude::*;
use serde::{Deserialize, Serialize};

#[derive(Clone, Debug, Serialize, Deserialize, PartialEq, Eq, Hash)]
pub enum Case {
    /// start at selector 0 and follow the selectors the responder returns;
    /// `noise[i]` (if any) is applied after the i-th query
    Walk { cfg: CtxCfg, s: u8, iid: u8, noise: Vec<Op> },
    /// selectors below n in a generated order with repeats, interleaved with other traffic
    Order { cfg: CtxCfg, ops: Vec<Op> },
}

pub struct C14;

impl Prop for C14 {
    type Case = Case;
    fn id(&self) -> &'static str {
        "C14"
    }
    fn rule(&self) -> String {
        "generated: responders with n in 1..16 vendor ID sets, each PCI (id 0..0xFFFF) or IANA (full u32) with an arbitrary numeric value; (i) walk: query selector 0 and follow the returned selectors, with other operations interleaved between queries; (ii) order: histories of 1-24 operations dominated by vendor-support queries with selectors < n in generated order with repeats, interleaved with other traffic. oracle: selector i < n => Success, next selector i+1 (0xFF when i = n-1), then [0, id BE16, numeric BE16] or [1, id BE32, numeric BE16]; the walk visits 0..n-1 once each, in order, then stops. non-trivial = n >= 2 with both formats configured and at least two queries answered; distinct by hash".into()
    }
    fn assumptions(&self) -> Vec<String> {
        vec!["selectors >= n are outside the claim (C10 demands only that they do not panic)".into()]
    }
    fn strategy(&self, _tier: Tier) -> BoxedStrategy<Case> {
        prop_oneof![
            1 => (gen::ctx_cfg(), gen::addr7(), 0u8..32, proptest::collection::vec(gen::history_op(), 0..=6))
                .prop_map(|(cfg, s, iid, noise)| Case::Walk { cfg, s, iid, noise }),
            1 => gen::responder_case([1, 1, 1, 1, 1, 16, 1], 1, 1, 24).prop_map(|(cfg, ops)| Case::Order { cfg, ops }),
        ]
        .boxed()
    }
    fn budget(&self, tier: Tier) -> u64 {
        match tier {
            Tier::Quick => 150_000,
            Tier::Thorough => 3_000_000,
        }
    }
    fn required_labels(&self) -> Vec<&'static str> {
        vec!["walk", "order", "n=1", "n=16", "both_formats", "nontrivial"]
    }
    fn enumerate(&self, tier: Tier, shard: usize, nshards: usize, f: &mut dyn FnMut(Case)) {
        let mut idx = 0usize;
        for n in 1..=16usize {
            let masks: Vec<u32> = if tier == Tier::Thorough || n <= 8 {
                (0..(1u32 << n)).collect()
            } else {
                (0..64u32).map(|i| i.wrapping_mul(0x9E37_79B1) >> (32 - n as u32)).collect()
            };
            for mask in masks {
                idx += 1;
                if idx % nshards != shard {
                    continue;
                }
                let vendors: Vec<(u8, u32, u16)> = (0..n)
                    .map(|i| {
                        let fmt = ((mask >> i) & 1) as u8;
                        let id = 0x0102_0304u32.wrapping_mul(i as u32 + 1).wrapping_add(mask);
                        (fmt, if fmt == 0 { id & 0xFFFF } else { id }, (0xA000 + i * 257) as u16)
                    })
                    .collect();
                let cfg = CtxCfg { addr: 0x23, msg_types: vec![], vendors };
                f(Case::Walk { cfg, s: 0x34, iid: (n as u8) & 0x1F, noise: vec![] });
            }
        }
    }
    fn enumerated_desc(&self, tier: Tier) -> Option<String> {
        Some(if tier == Tier::Thorough {
            "complete selector walks for every n in 1..16 and every one of the 2^n PCI/IANA format assignments (131070 configurations)".to_string()
        } else {
            "complete selector walks for every n in 1..8 with every one of the 2^n PCI/IANA format assignments, and 64 format assignments for each n in 9..16".to_string()
        })
    }
    fn run(&self, case: &Case) -> CaseResult {
        let mut r = CaseResult::default();
        let cfg = match case {
            Case::Walk { cfg, .. } | Case::Order { cfg, .. } => cfg,
        };
        let n = cfg.vendors.len();
        if n == 1 {
            r.label("n=1");
        }
        if n == 16 {
            r.label("n=16");
        }
        let both = cfg.vendors.iter().any(|v| v.0 == 0) && cfg.vendors.iter().any(|v| v.0 == 1);
        if both {
            r.label("both_formats");
        }
        match case {
            Case::Order { cfg, ops } => {
                r.label("order");
                let t = run_model(cfg, ops);
                if both && n >= 2 && t.stats.vendor_queries >= 2 {
                    r.nontrivial = true;
                    r.label("nontrivial");
                }
                for rep in t.reports.into_iter().filter(|x| x.prop == "C14") {
                    r.fail(rep.sig, rep.detail);
                }
            }
            Case::Walk { cfg, s, iid, noise } => {
                r.label("walk");
                let store = CtxStore::new(cfg);
                let mut ctx = store.ctx();
                let model = RefEndpoint::new(cfg);
                let mut visited: Vec<u8> = Vec::new();
                let mut sel: u8 = 0;
                let mut finished = false;
                for step in 0..(n + 2) {
                    let req = refmodel::build_control_request(cfg.addr, *s, cfg.addr, *s, *iid, 0x06, &[sel]);
                    let mut buf = vec![0x99u8; 64];
                    let p = sut::process(&ctx, &req, &mut buf);
                    if p.dec.is_panic() {
                        return r; // C10
                    }
                    let Some(rn) = p.resp else {
                        r.fail("C14:get_vendor_defined_message_support:no_response".to_string(), format!("walk step {}: selector {} of {} was not answered", step, sel, n));
                        return r;
                    };
                    if rn < 14 || rn > buf.len() {
                        r.fail("C14:get_vendor_defined_message_support:response_too_short".to_string(), format!("walk step {}: response of {} bytes", step, rn));
                        return r;
                    }
                    let resp = &buf[..rn];
                    visited.push(sel);
                    if (sel as usize) < n {
                        let next = if sel as usize + 1 == n { 0xFF } else { sel + 1 };
                        let mut want = vec![next];
                        want.extend_from_slice(&model.vendor_field(sel as usize));
                        if resp[11] != 0 {
                            r.fail(format!("C14:get_vendor_defined_message_support:cc={:#04x}", resp[11]), format!("walk step {}: selector {} of {} answered with completion code {:#04x}", step, sel, n, resp[11]));
                            return r;
                        }
                        if resp[12..rn - 1] != want[..] {
                            r.fail("C14:get_vendor_defined_message_support:data".to_string(), format!("walk step {}: selector {} of {} answered with {}, want {} (sets {:?})", step, sel, n, hex(&resp[12..rn - 1]), hex(&want), cfg.vendors));
                            return r;
                        }
                    }
                    if let Some(op) = noise.get(step) {
                        let _ = sut::apply_op(&mut ctx, op);
                    }
                    let next = resp[12];
                    if next == 0xFF {
                        finished = true;
                        break;
                    }
                    sel = next;
                }
                let want: Vec<u8> = (0..n as u8).collect();
                if !finished || visited != want {
                    r.fail("C14:walk_does_not_enumerate".to_string(), format!("following selectors from 0 visited {:?} (finished={}) but the {} configured sets are 0..{}", visited, finished, n, n));
                }
                if both && n >= 2 {
                    r.nontrivial = true;
                    r.label("nontrivial");
                }
            }
        }
        r
    }
}
