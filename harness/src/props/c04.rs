//! C04 — SMBus framing, byte count, reported length and length probe agree;
//! oversize messages are refused rather than encoded with a truncated count.

use super::common::*;
use crate::calls::*;
use crate::engine::*;
use crate::gen;
use crate::refmodel::{self, RefEnc};
use crate::sut::{self, CtxStore, Enc, Len};
use proptest::prelude::*;

pub struct C04;

/// The four representative encoders whose 128x128 address matrix is
/// enumerated in the thorough tier.
fn representative(i: usize) -> EncCall {
    match i {
        0 => EncCall::ReqGetEndpointId,
        1 => EncCall::RespVersion { cc: 0 },
        2 => EncCall::ReqVendor { format: 1, data: 0x11223344, numeric: 0, msg: vec![1, 2, 3] },
        _ => EncCall::TraitSpdm { half: Half::Resp, secured: true, header: Some(vec![9]), data: vec![8, 7] },
    }
}

impl Prop for C04 {
    type Case = PktCase;
    fn id(&self) -> &'static str {
        "C04"
    }
    fn rule(&self) -> String {
        "generated: responses produced by process_packet for forged requests, and every encoder x full-range arguments x 7-bit source/destination pairs, vendor/SPDM/trait bodies from empty to beyond the limit (up to 300 bytes, i.e. byte counts up to ~306); thorough tier also enumerates all 128x128 address pairs for four representative encoders. checks b0=dst<<1, b1=0x0F, b2=len-4, b3=src<<1|1, len=b2+4, get_length(prefix k)=len for every k in 3..=len, and that an oversize message is not returned as Ok. non-trivial = encoder returned Ok, or the message is oversize; distinct by hash of (environment, call)".into()
    }
    fn assumptions(&self) -> Vec<String> {
        vec!["7-bit addresses (bit 7 cannot be represented in the SMBus address byte)".into(), "how an oversize message is refused is C16's business; only an Ok result is a C04 violation".into()]
    }
    fn strategy(&self, _tier: Tier) -> BoxedStrategy<PktCase> {
        prop_oneof![
            5 => gen::enc_pair(gen::addr7().boxed(), gen::enc_call(false, true, true)).prop_map(|(env, call)| PktCase::Enc(EncCase { env, call })),
            1 => gen::resp_case().prop_map(PktCase::Resp),
        ]
        .boxed()
    }
    fn budget(&self, tier: Tier) -> u64 {
        match tier {
            Tier::Quick => 400_000,
            Tier::Thorough => 6_000_000,
        }
    }
    fn required_labels(&self) -> Vec<&'static str> {
        vec!["high_address", "oversize", "max_size", "ok", "process_packet_response"]
    }
    fn enumerate(&self, tier: Tier, shard: usize, nshards: usize, f: &mut dyn FnMut(PktCase)) {
        let mut idx = 0usize;
        super::enumer::for_each_enc_case(tier, false, true, true, &mut |env, call| {
            idx += 1;
            if idx % nshards == shard {
                f(PktCase::Enc(EncCase { env, call }));
            }
        });
        if tier != Tier::Thorough {
            return;
        }
        for k in 0..4 {
            for src in 0u8..128 {
                if (src as usize) % nshards != shard {
                    continue;
                }
                for dst in 0u8..128 {
                    f(PktCase::Enc(EncCase { env: EncEnv { addr: src, dest: dst, eid_req: 0, eid_resp: 0, eid_via_process: false, hist: vec![] }, call: representative(k) }));
                }
            }
        }
    }
    fn enumerated_desc(&self, tier: Tier) -> Option<String> {
        let mut d = format!("{} (bodies up to 262 bytes, i.e. beyond the frame limit)", ENC_ENUM_DESC);
        if tier == Tier::Thorough {
            d.push_str("; all 128x128 (source, destination) 7-bit address pairs for 4 representative encoders (control request, control response, IANA vendor message, secured message): 65536 cases");
        }
        Some(d)
    }
    fn run(&self, case: &PktCase) -> CaseResult {
        let mut r = CaseResult::default();
        let (buf, len, src, dest, kind) = match case {
            PktCase::Enc(case) => {
                let env = &case.env;
                let kind = case.call.kind();
                let refenc = refmodel::ref_encode(&case.call, env.eid_resp);
                let oversize = matches!(refenc, RefEnc::Refuse("message too large for the SMBus byte count"));
                let need = match &refenc {
                    RefEnc::Refuse(_) => super::c16::wanted_len(&case.call) + 64,
                    RefEnc::Packet(p) => p.body.len() + 74,
                };
                let (e, buf) = encode_in(env, &case.call, need.max(640), |_| 0xEE);
                if oversize {
                    r.nontrivial = true;
                    r.label("oversize");
                    if let Enc::Ok(n) = e {
                        r.fail(
                            format!("C04:{}:oversize_encoded", kind),
                            format!("a message needing byte count > 255 was encoded: returned len {} with byte count {:#04x}", n, buf[2]),
                        );
                    }
                    return r;
                }
                r.label("ok");
                if env.addr >= 0x40 || env.dest >= 0x40 {
                    r.label("high_address");
                }
                if let RefEnc::Packet(p) = &refenc {
                    if (255..=259).contains(&(p.body.len() + 10)) {
                        r.label("max_size");
                    }
                }
                let Enc::Ok(len) = e else { return r };
                (buf, len, env.addr, env.dest, kind)
            }
            PktCase::Resp(c) => {
                r.label("process_packet_response");
                let Some(p) = produce_response(c) else { return r };
                (p.buf, p.len, p.src, p.dest & 0x7F, p.kind)
            }
        };
        r.nontrivial = true;
        if len < 4 || len > buf.len() {
            r.fail(format!("C04:{}:len", kind), format!("reported length {} is impossible", len));
            return r;
        }
        let mut chk = |name: &str, got: u32, want: u32| {
            if got != want {
                r.fail(format!("C04:{}:{}", kind, name), format!("{}: got {:#x}, want {:#x} (packet {})", name, got, want, hex(&buf[..len.min(24)])));
            }
        };
        chk("dst_addr", buf[0] as u32, (dest as u32) << 1);
        chk("smbus_cmd", buf[1] as u32, 0x0F);
        chk("byte_count", buf[2] as u32, (len - 4) as u32);
        chk("src_addr", buf[3] as u32, ((src as u32) << 1) | 1);
        // length probe on every prefix of at least three bytes
        let store = CtxStore::new(&CtxCfg::default_test());
        let ctx = store.ctx();
        for k in 3..=len {
            let got = sut::get_length(&ctx, &buf[..k]);
            if got != Len::Ok(len) {
                r.fail(format!("C04:{}:get_length", kind), format!("get_length on the first {} bytes of a {}-byte packet returned {:?}", k, len, got));
                break;
            }
        }
        r
    }
}
