//! Helpers shared by the encoder-side properties.

use crate::calls::*;
use crate::sut::{self, CtxStore, Enc};
use serde::{Deserialize, Serialize};

/// An encoder invocation in its environment.
#[derive(Clone, Debug, Serialize, Deserialize, PartialEq, Eq, Hash)]
pub struct EncCase {
    pub env: EncEnv,
    pub call: EncCall,
}

/// Encode `call` in `env` into a buffer of `cap` bytes pre-filled by
/// `fill(i)`.  Returns the outcome and the buffer.
pub fn encode_in(env: &EncEnv, call: &EncCall, cap: usize, fill: impl Fn(usize) -> u8) -> (Enc, Vec<u8>) {
    let store = CtxStore::new(&CtxCfg { addr: env.addr, msg_types: vec![], vendors: vec![(0, 0x1234, 0xAB)] });
    let ctx = store.ctx();
    sut::apply_env(&ctx, env);
    let mut buf: Vec<u8> = (0..cap).map(&fill).collect();
    let e = sut::encode(&ctx, call, env.dest, &mut buf);
    (e, buf)
}

pub const BIG: usize = 384;

pub fn len_bucket(n: usize) -> &'static str {
    match n {
        0..=11 => "len<12",
        12..=15 => "len12-15",
        16..=31 => "len16-31",
        32..=63 => "len32-63",
        64..=127 => "len64-127",
        128..=255 => "len128-255",
        256..=259 => "len256-259",
        _ => "len>259",
    }
}
