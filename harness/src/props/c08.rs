//! C08 — vendor-defined and SPDM messages are framed with the right vendor header.

use super::common::*;
use crate::calls::*;
use crate::engine::*;
use crate::gen;
use crate::refmodel::{self, RefEnc};
use crate::sut::Enc;
use proptest::prelude::*;

pub struct C08;

impl Prop for C08 {
    type Case = EncCase;
    fn id(&self) -> &'static str {
        "C08"
    }
    fn rule(&self) -> String {
        "generated: vendor_defined() with format byte 0..255 (weighted 0,1,2,255), data over the full u32 range (weights on values with four distinct bytes and on >16-bit values for PCI), bodies of every length up to the frame limit; trait-level PCI/IANA/SPDM/secured writers with optional header of 0-8 bytes. oracle: format 0 => type 0x7E, BE16(data & 0xFFFF), body verbatim; format 1 => 0x7F, BE32(data), body; other format => Err(()); SPDM/secured => type 0x05/0x06, header then data verbatim from offset 9. non-trivial = PCI id with hi != lo byte, IANA id with 4 distinct bytes, or a non-empty body / a refused format; distinct by hash of (environment, call)".into()
    }
    fn assumptions(&self) -> Vec<String> {
        vec!["bodies fit the SMBus frame (oversize is C04/C16)".into()]
    }
    fn strategy(&self, _tier: Tier) -> BoxedStrategy<EncCase> {
        gen::enc_pair(gen::addr7().boxed(), prop_oneof![3 => gen::vendor_call(true, false), 2 => gen::trait_call(false, false)].boxed())
            .prop_map(|(env, call)| EncCase { env, call })
            .boxed()
    }
    fn budget(&self, tier: Tier) -> u64 {
        match tier {
            Tier::Quick => 500_000,
            Tier::Thorough => 8_000_000,
        }
    }
    fn required_labels(&self) -> Vec<&'static str> {
        vec!["vendor_defined_pci", "vendor_defined_iana", "vendor_defined_badformat", "trait_pci", "trait_iana", "trait_spdm", "trait_secured", "pci_data>16bit", "body_at_limit"]
    }
    fn enumerate(&self, tier: Tier, shard: usize, nshards: usize, f: &mut dyn FnMut(EncCase)) {
        let mut idx = 0usize;
        super::enumer::for_each_enc_case(tier, true, false, false, &mut |env, call| {
            if !matches!(call, EncCall::ReqVendor { .. } | EncCall::TraitPci { .. } | EncCall::TraitIana { .. } | EncCall::TraitSpdm { .. }) {
                return;
            }
            idx += 1;
            if idx % nshards == shard {
                f(EncCase { env, call });
            }
        });
    }
    fn enumerated_desc(&self, _tier: Tier) -> Option<String> {
        Some("every vendor ID format byte 0..255 (two messages each); every message length 0..247 (PCI) / 0..245 (IANA) through vendor_defined(); every body length 0..249 through the PCI, IANA, SPDM and secured trait-level writers of both halves, with and without a separate header".into())
    }
    fn run(&self, case: &EncCase) -> CaseResult {
        let mut r = CaseResult::default();
        let kind = case.call.kind();
        r.label(kind);
        let refenc = refmodel::ref_encode(&case.call, case.env.eid_resp);
        let ((e, buf), (e_again, buf_again)) = encode_twice_in(&case.env, &case.call, BIG, |i| 0xC0 | (i as u8 & 0x0F));
        if let (Enc::Ok(n1), again) = (&e, &e_again) {
            let same = matches!(again, Enc::Ok(n2) if n2 == n1 && *n1 <= buf.len() && buf_again[..*n1] == buf[..*n1]);
            if !same {
                r.fail(format!("C08:{}:second_encode_differs", kind), format!("the same message encoded twice in a row on one context gives different packets (first {} bytes, then {:?})", n1, again));
            }
        }
        match refenc {
            RefEnc::Refuse(why) => {
                r.nontrivial = true;
                if let Enc::Ok(n) = e {
                    r.fail(format!("C08:{}:accepted_bad_format", kind), format!("{}: encoder returned Ok({}) and wrote {}", why, n, hex(&buf[..n.min(24)])));
                }
            }
            RefEnc::Packet(p) => {
                if p.body.len() >= refmodel::MAX_BODY - 1 {
                    r.label("body_at_limit");
                }
                if let EncCall::ReqVendor { format: 0, data, .. } = &case.call {
                    if *data > 0xFFFF {
                        r.label("pci_data>16bit");
                    }
                }
                let len = match e {
                    Enc::Ok(n) => n,
                    other => {
                        // "message bodies of every length and content the SMBus frame can carry"
                        r.fail(format!("C08:{}:valid_message_not_encoded", kind), format!("a message that fits the SMBus frame ({} bytes after the type byte) was not encoded: {:?}", p.body.len(), other));
                        return r;
                    }
                };
                if len < 10 || len > buf.len() {
                    r.fail(format!("C08:{}:len", kind), format!("impossible length {}", len));
                    return r;
                }
                if let EncCall::ReqVendor { format: 0, data, .. } = &case.call {
                    r.nontrivial = (*data >> 8) as u8 != *data as u8;
                }
                if let EncCall::ReqVendor { format: 1, data, .. } = &case.call {
                    let b = data.to_be_bytes();
                    r.nontrivial = b[0] != b[1] && b[1] != b[2] && b[2] != b[3] && b[0] != b[3];
                }
                if p.body.len() > 4 {
                    r.nontrivial = true;
                }
                // the same message into a buffer of exactly the frame's length
                let (e3, buf3) = encode_in(&case.env, &case.call, len, |i| 0x90 | (i as u8 & 0x0F));
                match e3 {
                    Enc::Ok(n3) if n3 == len && buf3[..len] == buf[..len] => {}
                    other => r.fail(format!("C08:{}:exact_fit_buffer", kind), format!("into a {}-byte buffer the encoder gives Ok({}) and the frame; into a buffer of exactly {} bytes it gives {:?}", BIG, len, len, other)),
                }
                if buf[8] != p.type_byte {
                    r.fail(format!("C08:{}:msg_type", kind), format!("message type byte is {:#04x}, want {:#04x}", buf[8], p.type_byte));
                }
                let body = &buf[9..len - 1];
                if body != &p.body[..] {
                    let hl = match &case.call {
                        EncCall::ReqVendor { format: 0, .. } => 2,
                        EncCall::ReqVendor { .. } => 4,
                        _ => 0,
                    };
                    if hl > 0 && body.len() >= hl && body[..hl] != p.body[..hl] {
                        r.fail(format!("C08:{}:vendor_id", kind), format!("vendor id bytes are {}, want {}", hex(&body[..hl]), hex(&p.body[..hl])));
                    } else {
                        r.fail(format!("C08:{}:body", kind), format!("bytes after the type byte are {} ({} bytes), want {} ({} bytes)", hex(&body[..body.len().min(32)]), body.len(), hex(&p.body[..p.body.len().min(32)]), p.body.len()));
                    }
                }
            }
        }
        r
    }
}
