//! One module per property.

pub mod common;

pub mod c01;
pub mod c03;
