//! C01 — encode then decode is the identity on message type and payload.

use super::common::*;
use crate::calls::*;
use crate::engine::*;
use crate::gen;
use crate::refmodel::{self, RefEnc};
use crate::sut::{self, CtxStore, Dec, Enc, ErrK};
use proptest::prelude::*;
use serde::{Deserialize, Serialize};

#[derive(Clone, Debug, Serialize, Deserialize, PartialEq, Eq, Hash)]
pub struct Case {
    pub enc: EncCase,
    /// the receiving context (besides the sender itself and a default one)
    pub recv: CtxCfg,
    pub recv_hist: Vec<Op>,
}

pub struct C01;

/// What decode must return for the bytes `call` encoded (length `len`).
pub fn expected(call: &EncCall, len: usize) -> Option<Dec> {
    use EncCall::*;
    let end = len - 1;
    Some(match call {
        c if c.is_request_encoder() => Dec::Ok { ty: 0x00, start: 11, len: end - 11 },
        c if c.is_response_encoder() => {
            let cc = c.cc().unwrap();
            if cc == 0 {
                Dec::Ok { ty: 0x00, start: 12, len: end - 12 }
            } else {
                Dec::Err { ty: 0x00, err: ErrK::Unsuccessful(cc) }
            }
        }
        ReqVendor { format: 0, .. } | TraitPci { .. } => Dec::Ok { ty: 0x7E, start: 9, len: end - 9 },
        ReqVendor { format: 1, .. } | TraitIana { .. } => Dec::Ok { ty: 0x7F, start: 9, len: end - 9 },
        TraitSpdm { secured: false, .. } => Dec::Ok { ty: 0x05, start: 9, len: end - 9 },
        TraitSpdm { secured: true, .. } => Dec::Ok { ty: 0x06, start: 9, len: end - 9 },
        _ => return None,
    })
}

impl Prop for C01 {
    type Case = Case;
    fn id(&self) -> &'static str {
        "C01"
    }
    fn rule(&self) -> String {
        "generated: encoder kind (17 requests, 6 responses x 6 completion codes, vendor_defined PCI/IANA, trait-level PCI/IANA/SPDM/secured writers) x arguments over their full ranges x 7-bit source/destination x sender EID state x receiving context (the sender, a default context, and a random context after a random history). non-trivial = the encoder returned Ok (a packet exists to round-trip); distinct by hash of the whole case".into()
    }
    fn assumptions(&self) -> Vec<String> {
        vec![
            "addresses are 7-bit; arguments are within the documented shapes; documented-invalid arguments are left to C16".into(),
            "the generic generate_control_packet_bytes writer is not round-tripped (its payload is not defined by the property)".into(),
            "payload position is observed by slice address arithmetic against the input buffer".into(),
        ]
    }
    fn strategy(&self, _tier: Tier) -> BoxedStrategy<Case> {
        (
            gen::enc_pair(gen::addr7().boxed(), gen::enc_call(false, false, false)),
            gen::ctx_cfg(),
            prop_oneof![3 => Just(Vec::new()).boxed(), 1 => gen::prior_history(4)],
        )
            .prop_map(|((env, call), recv, recv_hist)| Case { enc: EncCase { env, call }, recv, recv_hist })
            .boxed()
    }
    fn budget(&self, tier: Tier) -> u64 {
        match tier {
            Tier::Quick => 400_000,
            Tier::Thorough => 6_000_000,
        }
    }
    fn required_labels(&self) -> Vec<&'static str> {
        vec![
            "req_set_endpoint_id", "req_get_endpoint_id", "req_get_endpoint_uuid", "req_get_mctp_version_support",
            "req_get_message_type_support", "req_get_vendor_defined_message_support", "req_resolve_endpoint_id",
            "req_allocate_endpoint_ids", "req_routing_information_update", "req_get_routing_table_entries",
            "req_prepare_for_endpoint_discovery", "req_endpoint_discovery", "req_discovery_notify", "req_get_network_id",
            "req_query_hop", "req_resolve_uuid", "req_query_rate_limit", "vendor_defined_pci", "vendor_defined_iana",
            "trait_pci", "trait_iana", "trait_spdm", "trait_secured", "resp_set_endpoint_id", "resp_get_endpoint_id",
            "resp_get_endpoint_uuid", "resp_get_mctp_version_support", "resp_get_message_type_support",
            "resp_get_vendor_defined_message_support", "resp_nonsuccess", "recv_with_history",
        ]
    }

    fn enumerate(&self, tier: Tier, shard: usize, nshards: usize, f: &mut dyn FnMut(Case)) {
        let mut idx = 0usize;
        super::enumer::for_each_enc_case(tier, false, false, false, &mut |env, call| {
            idx += 1;
            if idx % nshards == shard {
                f(Case { enc: EncCase { env, call }, recv: CtxCfg { addr: 0x11, msg_types: vec![1, 2, 3], vendors: vec![(1, 0x11223344, 5), (0, 0x1234, 6)] }, recv_hist: vec![] });
            }
        });
    }
    fn enumerated_desc(&self, _tier: Tier) -> Option<String> {
        Some(ENC_ENUM_DESC.to_string())
    }
    fn run(&self, case: &Case) -> CaseResult {
        let mut r = CaseResult::default();
        let pkt = run_one(case, &mut r);
        // data-dependent coincidence: the same call with a message whose last
        // bytes are a valid PEC of everything before them (then the packet's own
        // PEC is 0x00 and, in the second form, the packet ends with two equal
        // bytes) - content a uniformly random payload meets once in 2^16
        if let (Some(pkt), true) = (pkt, r.failures.is_empty()) {
            let h = pkt.iter().fold(0u8, |a, b| a.wrapping_mul(31) ^ b);
            if let Some(call2) = self_pec_variant(&case.enc.call, &pkt, h & 1 == 0) {
                let mut c2 = case.clone();
                c2.enc.call = call2;
                let mut r2 = CaseResult::default();
                let _ = run_one(&c2, &mut r2);
                r.label("payload_ends_with_pec");
                for f in r2.failures {
                    r.fail(format!("{}:payload_ends_with_pec", f.sig), format!("with the message changed to end in the PEC of what precedes it: {}", f.detail));
                }
            }
        }
        r
    }
}

/// `call` with the tail of its free-form message replaced so that, inside the
/// packet `pkt` it was encoded to, the message ends with the CRC-8 of all
/// preceding packet bytes (`two` = followed by 0x00).
fn self_pec_variant(call: &EncCall, pkt: &[u8], two: bool) -> Option<EncCall> {
    use EncCall::*;
    let n = pkt.len();
    let patch = |m: &Vec<u8>| -> Option<Vec<u8>> {
        let k = m.len();
        if k < 2 || n < 14 || pkt[n - 1 - k..n - 1] != m[..] {
            return None;
        }
        let mut v = m.clone();
        if two {
            v[k - 2] = crate::crc::crc8(&pkt[..n - 3]);
            v[k - 1] = 0;
        } else {
            v[k - 1] = crate::crc::crc8(&pkt[..n - 2]);
        }
        Some(v)
    };
    Some(match call {
        ReqVendor { format, data, numeric, msg } => ReqVendor { format: *format, data: *data, numeric: *numeric, msg: patch(msg)? },
        TraitPci { half, header, data } => TraitPci { half: *half, header: header.clone(), data: patch(data)? },
        TraitIana { half, header, data } => TraitIana { half: *half, header: header.clone(), data: patch(data)? },
        TraitSpdm { half, secured, header, data } => TraitSpdm { half: *half, secured: *secured, header: header.clone(), data: patch(data)? },
        _ => return None,
    })
}

fn run_one(case: &Case, r: &mut CaseResult) -> Option<Vec<u8>> {
        let env = &case.enc.env;
        let call = &case.enc.call;
        let kind = call.kind();
        let refenc = refmodel::ref_encode(call, env.eid_resp);
        let refp = match refenc {
            RefEnc::Refuse(_) => return None, // not a packet; C16's business
            RefEnc::Packet(p) => p,
        };
        r.label(kind);
        if call.cc().map(|c| c != 0).unwrap_or(false) {
            r.label("resp_nonsuccess");
        }
        if !case.recv_hist.is_empty() {
            r.label("recv_with_history");
        }
        // sender context kept alive so that it can decode its own packet
        let store = CtxStore::new(&CtxCfg { addr: env.addr, msg_types: vec![], vendors: vec![(0, 0x1234, 0xAB)] });
        let mut sender = store.ctx();
        for op in &env.hist {
            let _ = sut::apply_op(&mut sender, op);
        }
        sut::apply_env(&sender, env);
        let mut buf = vec![0xA5u8; BIG];
        let len = match sut::encode(&sender, call, env.dest, &mut buf) {
            Enc::Ok(n) => n,
            _ => return None, // no packet was produced: nothing to round-trip (C16 demands success)
        };
        if len < 10 || len > buf.len() {
            return None; // C04 reports bad lengths
        }
        r.nontrivial = true;
        let Some(want) = expected(call, len) else { return None };
        let pkt = &buf[..len];

        // receivers: the sender itself, a default context, a configured one with history
        let dstore = CtxStore::new(&CtxCfg::default_test());
        let dctx = dstore.ctx();
        let rstore = CtxStore::new(&case.recv);
        let mut rctx = rstore.ctx();
        for op in &case.recv_hist {
            let _ = sut::apply_op(&mut rctx, op);
        }
        let outcomes = [("sender", sut::decode(&sender, pkt)), ("default", sut::decode(&dctx, pkt)), ("configured", sut::decode(&rctx, pkt))];
        for (who, got) in outcomes.iter() {
            if got == &want {
                continue;
            }
            let what = match (got, &want) {
                (Dec::Panic(m), _) => format!("panic:{}", sut::panic_kind(m)),
                (Dec::Err { err, .. }, Dec::Ok { .. }) => format!("rejected:{:?}", err),
                (Dec::Ok { ty, .. }, Dec::Ok { ty: wt, .. }) if ty != wt => "wrong_type".to_string(),
                (Dec::Ok { .. }, Dec::Ok { .. }) => "wrong_payload_range".to_string(),
                (Dec::Ok { .. }, Dec::Err { .. }) => "accepted_nonsuccess".to_string(),
                (Dec::Err { .. }, Dec::Err { .. }) => "wrong_error".to_string(),
                _ => "mismatch".to_string(),
            };
            r.fail(
                format!("C01:{}:{}", kind, what),
                format!("{} encoded as {} decodes on the {} context to {} but must be {}", kind, hex(pkt), who, got.brief(), want.brief()),
            );
            break; // one report per case is enough
        }
        // byte-for-byte: the payload is what the caller passed in
        if let Dec::Ok { start, len: plen, .. } = &want {
            if refp.exact {
                let off = start - 9;
                if refp.body.len() >= off {
                    let want_payload = &refp.body[off..];
                    let got_payload = &pkt[*start..start + plen];
                    if want_payload != got_payload {
                        r.fail(
                            format!("C01:{}:payload_not_what_was_encoded", kind),
                            format!("payload bytes {} differ from the encoded arguments {}", hex(got_payload), hex(want_payload)),
                        );
                    }
                }
            }
        }
        Some(pkt.to_vec())
}
