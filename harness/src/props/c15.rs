//! C15 — the responder reports the identity it was configured with.

use super::endpoint::run_model;
use crate::engine::*;
use crate::gen;
use proptest::prelude::*;

pub use super::c12::Case;

pub struct C15;

impl Prop for C15 {
    type Case = Case;
    fn id(&self) -> &'static str {
        "C15"
    }
    fn rule(&self) -> String {
        "generated (model-based): responders configured with message-type lists of 0-30 arbitrary bytes (weights on 0, 1, 29, 30) and histories of 1-24 operations: UUID updates, Get Endpoint UUID / Get MCTP Version Support (any query byte) / Get Message Type Support requests from any requester, interleaved with Set Endpoint ID, vendor-support queries, Resolve-UUID-shaped requests, vendor/SPDM messages, corrupted packets, accessor calls and encodes. oracle: reference endpoint: count + list verbatim; the 16 bytes most recently installed (zeros before any); 01 F1 F3 F1 00; completion code Success; independent of all other traffic. non-trivial = list length >= 4 with a type query, or >= 2 UUID updates with traffic between and a UUID query; distinct by hash".into()
    }
    fn assumptions(&self) -> Vec<String> {
        vec!["set_uuid is given exactly 16 bytes (its documented shape)".into()]
    }
    fn strategy(&self, _tier: Tier) -> BoxedStrategy<Case> {
        gen::responder_case([2, 1, 8, 5, 8, 1, 3], 1, 6, 24).prop_map(|(cfg, ops)| Case { cfg, ops }).boxed()
    }
    fn budget(&self, tier: Tier) -> u64 {
        match tier {
            Tier::Quick => 100_000,
            Tier::Thorough => 3_000_000,
        }
    }
    fn required_labels(&self) -> Vec<&'static str> {
        vec!["uuid_query", "version_query", "types_query", "types_len_30", "types_len_0", "uuid_updates_with_traffic", "nontrivial"]
    }
    fn run(&self, case: &Case) -> CaseResult {
        let mut r = CaseResult::default();
        let t = run_model(&case.cfg, &case.ops);
        let s = &t.stats;
        if s.identity_queries[0] > 0 {
            r.label("uuid_query");
        }
        if s.identity_queries[1] > 0 {
            r.label("version_query");
        }
        if s.identity_queries[2] > 0 {
            r.label("types_query");
            match case.cfg.msg_types.len() {
                30 => r.label("types_len_30"),
                0 => r.label("types_len_0"),
                _ => {}
            }
        }
        if s.traffic_between_uuid_updates {
            r.label("uuid_updates_with_traffic");
        }
        if (case.cfg.msg_types.len() >= 4 && s.identity_queries[2] > 0) || (s.traffic_between_uuid_updates && s.identity_queries[0] > 0) {
            r.nontrivial = true;
            r.label("nontrivial");
        }
        for rep in t.reports.into_iter().filter(|x| x.prop == "C15") {
            r.fail(rep.sig, rep.detail);
        }
        r
    }
}
