//! C15 — the responder reports the identity it was configured with.

use super::endpoint::run_model;
use crate::engine::*;
use crate::gen;
use proptest::prelude::*;

pub use super::c12::Case;

pub struct C15;

impl Prop for C15 {
    type Case = Case;
    fn id(&self) -> &'static str {
        "C15"
    }
    fn rule(&self) -> String {
        "generated (model-based): responders configured with message-type lists of 0-30 arbitrary bytes (weights on 0, 1, 29, 30) and histories of 1-24 operations: UUID updates, Get Endpoint UUID / Get MCTP Version Support (any query byte) / Get Message Type Support requests from any requester, interleaved with Set Endpoint ID, vendor-support queries, Resolve-UUID-shaped requests, vendor/SPDM messages, corrupted packets, accessor calls and encodes. oracle: reference endpoint: count + list verbatim; the 16 bytes most recently installed (zeros before any); 01 F1 F3 F1 00; completion code Success; independent of all other traffic. non-trivial = list length >= 4 with a type query, or >= 2 UUID updates with traffic between and a UUID query; distinct by hash".into()
    }
    fn assumptions(&self) -> Vec<String> {
        vec!["set_uuid is given exactly 16 bytes (its documented shape)".into()]
    }
    fn strategy(&self, _tier: Tier) -> BoxedStrategy<Case> {
        gen::responder_case([2, 1, 8, 5, 8, 1, 3], 1, 6, 24).prop_map(|(cfg, ops)| Case { cfg, ops }).boxed()
    }
    fn budget(&self, tier: Tier) -> u64 {
        match tier {
            Tier::Quick => 150_000,
            Tier::Thorough => 3_000_000,
        }
    }
    fn required_labels(&self) -> Vec<&'static str> {
        vec!["uuid_query", "version_query", "types_query", "types_len_30", "types_len_0", "uuid_updates_with_traffic", "nontrivial"]
    }
    fn enumerate(&self, _tier: Tier, shard: usize, nshards: usize, f: &mut dyn FnMut(Case)) {
        use crate::calls::*;
        use crate::refmodel::build_control_request;
        let a = 0x23u8;
        let mut idx = 0usize;
        for len in 0..=30usize {
            for variant in 0..8u8 {
                idx += 1;
                if idx % nshards != shard {
                    continue;
                }
                let types: Vec<u8> = (0..len).map(|i| (i as u8).wrapping_mul(29).wrapping_add(variant.wrapping_mul(31)) ^ 0x5A).collect();
                let cfg = CtxCfg { addr: a, msg_types: types, vendors: vec![(0, 0x1234, 0xAB)] };
                let s = 0x30 + variant;
                let q = |iid: u8, cmd: u8, data: &[u8]| Op::Process { bytes: build_control_request(a, s, a, s, iid, cmd, data), cap: 64, fill: 0xEE };
                let mut u1 = [0u8; 16];
                let mut u2 = [0u8; 16];
                for i in 0..16 {
                    u1[i] = (i as u8) ^ variant.wrapping_mul(17);
                    u2[i] = 0xFF - (i as u8) * 3 - variant;
                }
                let ops = vec![
                    q(1, 0x03, &[]),
                    Op::SetUuid(u1),
                    q(2, 0x03, &[]),
                    q(3, 0x05, &[]),
                    q(4, 0x04, &[variant.wrapping_mul(37)]),
                    q(5, 0x01, &[0x00, 0x42]),
                    q(6, 0x10, &[0xAA; 17]),
                    Op::SetUuid(u2),
                    q(7, 0x06, &[0x00]),
                    q(8, 0x03, &[]),
                    q(9, 0x05, &[]),
                    q(10, 0x04, &[len as u8]),
                ];
                f(Case { cfg, ops });
            }
        }
    }
    fn enumerated_desc(&self, _tier: Tier) -> Option<String> {
        Some("every message-type list length 0..30 x 8 content/UUID variants, each with the fixed history: UUID query (before any update), update, UUID / type / version queries, Set Endpoint ID, Resolve-UUID-shaped request, second update, vendor query, UUID / type / version queries again".into())
    }
    fn run(&self, case: &Case) -> CaseResult {
        let mut r = CaseResult::default();
        let t = run_model(&case.cfg, &case.ops);
        let s = &t.stats;
        if s.identity_queries[0] > 0 {
            r.label("uuid_query");
        }
        if s.identity_queries[1] > 0 {
            r.label("version_query");
        }
        if s.identity_queries[2] > 0 {
            r.label("types_query");
            match case.cfg.msg_types.len() {
                30 => r.label("types_len_30"),
                0 => r.label("types_len_0"),
                _ => {}
            }
        }
        if s.traffic_between_uuid_updates {
            r.label("uuid_updates_with_traffic");
        }
        if (case.cfg.msg_types.len() >= 4 && s.identity_queries[2] > 0) || (s.traffic_between_uuid_updates && s.identity_queries[0] > 0) {
            r.nontrivial = true;
            r.label("nontrivial");
        }
        for rep in t.reports.into_iter().filter(|x| x.prop == "C15") {
            r.fail(rep.sig, rep.detail);
        }
        r
    }
}
