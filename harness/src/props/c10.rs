//! C10 — the receive path returns a result for every input instead of crashing.

use crate::calls::*;
use crate::engine::*;
use crate::gen;
use crate::refmodel::{self, RefEnc};
use crate::sut::{self, CtxStore, Dec, Len};
use proptest::prelude::*;
use serde::{Deserialize, Serialize};

#[derive(Clone, Debug, Serialize, Deserialize, PartialEq, Eq, Hash)]
pub struct Case {
    pub cfg: CtxCfg,
    /// Process / Decode / GetLength steps applied in order to one context
    pub ops: Vec<Op>,
    /// the whole list is applied this many times (long histories)
    #[serde(default = "one")]
    pub repeat: u32,
}

fn one() -> u32 {
    1
}

pub struct C10;

/// Deterministic list of valid packets (reference encoder) used for the
/// enumerated truncation / byte-substitution sub-domains.
pub fn base_packets() -> Vec<Vec<u8>> {
    use EncCall::*;
    let calls = vec![
        ReqSetEndpointId { op: 0, eid: 0x56 },
        ReqGetEndpointId,
        ReqGetEndpointUuid,
        ReqGetVersion { query: 0 },
        ReqGetMsgTypes,
        ReqGetVendorSupport { sel: 0 },
        ReqResolveEid { eid: 9 },
        ReqAllocateEids { op: 0, pool: 4, start: 0x20 },
        ReqRoutingUpdate { entries: vec![[1, 2, 3, 4], [5, 6, 7, 8]] },
        ReqGetRoutingTable { handle: 0 },
        ReqPrepareDiscovery,
        ReqQueryHop { eid: 0x92, mt: 0 },
        ReqResolveUuid { uuid: [7; 16], handle: 1 },
        ReqVendor { format: 0, data: 0x1234, numeric: 0, msg: vec![1, 2, 3, 4] },
        ReqVendor { format: 1, data: 0x11223344, numeric: 0, msg: vec![1, 2, 3, 4] },
        TraitSpdm { half: Half::Req, secured: false, header: None, data: vec![0x10, 0x84, 0, 0] },
        TraitSpdm { half: Half::Req, secured: true, header: Some(vec![1, 2]), data: vec![3] },
        RespSetEndpointId { cc: 0, assign: 0, alloc: 0 },
        RespGetEndpointId { cc: 0, etype: 0, idtype: 0, fairness: true },
        RespUuid { cc: 0, uuid: [3; 16] },
        RespVersion { cc: 0 },
        RespMsgTypes { cc: 0, types: vec![0x7E, 5] },
        RespVendorSupport { cc: 0, selector: 0xFF, vendor_id: vec![0, 0x12, 0x34, 0, 0xAB] },
        RespVersion { cc: 3 },
    ];
    calls
        .iter()
        .filter_map(|c| match refmodel::ref_encode(c, 0x21) {
            RefEnc::Packet(p) => {
                let mut body = p.body.clone();
                if !p.exact {
                    body.extend_from_slice(&[1, 2]);
                }
                Some(refmodel::build_packet(0x23, 0x34, 0x23, 0x34, 0xC8, p.type_byte, &body))
            }
            _ => None,
        })
        .collect()
}

fn entry_class(bytes: &[u8]) -> String {
    let f = refmodel::ref_decode(bytes);
    let mut c = super::c09::class_of(&f, bytes);
    // refine accepted requests by what process_packet acts upon
    if f.control && f.rq && f.n >= 13 && matches!(f.verdict, refmodel::Verdict::Accept { .. }) {
        match f.cmd {
            0x01 => c = format!("{}_op_{}", c, if bytes[11] <= 3 { format!("{}", bytes[11]) } else { "other".into() }),
            0x06 => c = format!("{}_sel_{}", c, if bytes[11] == 0xFF { "ff" } else { "n" }),
            _ => {}
        }
    }
    if f.n >= 256 {
        c = format!("{}_len_ge_256", c);
    }
    c
}

impl Prop for C10 {
    type Case = Case;
    fn id(&self) -> &'static str {
        "C10"
    }
    fn rule(&self) -> String {
        "generated: sequences of 1-6 decode_packet / get_length / process_packet calls on one validly configured context (7-bit address, 0-30 message types, 0-16 (rarely 255 or 256) vendor sets of format 0/1, response buffer 64-300 bytes), the sequence being applied once or - three cases in a hundred - 2-8 or 256-400 times over, and one case in eight thousand (then at most two calls) 65 600-66 000 times over (long histories); accessor calls on either half, UUID updates and encodes are interleaved; inputs of length 0-640: frame-grammar packets (every command code, completion code, operation and selector value), reference-encoded valid packets, their one-byte mutations and truncations, packets whose byte count announces a PEC-consistent frame ending inside them, control requests with the right data length for every command, random bytes. enumerated (both tiers): every truncation point of 24 reference-encoded packets (as is and with the PEC repaired) and every value 0..255 of every byte position of those packets (PEC repaired), and every byte count 0..255 announced by those packets with the byte at the announced PEC position made consistent, through all three entry points. oracle: catch_unwind around each call, built with overflow checks and debug assertions. non-trivial = the sequence contains an input that passes transport-header and type validation, or a truncation of a valid packet; distinct by hash".into()
    }
    fn assumptions(&self) -> Vec<String> {
        vec!["not demanded: behaviour with invalid configuration (vendor format not 0/1, more than 30 message types, response buffer shorter than 64 bytes); a context without any vendor ID set is treated as valid".into()]
    }
    fn strategy(&self, _tier: Tier) -> BoxedStrategy<Case> {
        let input = prop_oneof![
            10 => gen::recv_input(),
            2 => gen::actionable_request(),
            1 => gen::bytes_between(240, 640),
            1 => (gen::bytes_between(240, 300), any::<u8>()).prop_map(|(mut tail, cmd)| {
                // long, valid control request (exercises the byte-count arithmetic)
                let mut v = vec![0x46, 0x0F, 0, 0x69, 0x01, 0x23, 0x34, 0xC8, 0x00, 0x80, cmd];
                v.append(&mut tail);
                v.truncate(262);
                let n = v.len();
                v[2] = (n as u8).wrapping_sub(4);
                refmodel::fix_pec(&mut v);
                v
            }),
        ];
        let op = prop_oneof![
            12 => (input.clone(), 64u16..=300, any::<u8>()).prop_map(|(bytes, cap, fill)| Op::Process { bytes, cap, fill }),
            6 => input.clone().prop_map(|bytes| Op::Decode { bytes }),
            2 => input.prop_map(|bytes| Op::GetLength { bytes }),
            // the rest of a context's history: accessor calls on either half, UUID updates, encodes
            1 => gen::any_u8().prop_map(Op::SetReqEid),
            1 => gen::any_u8().prop_map(Op::SetRespEid),
            1 => gen::uuid().prop_map(Op::SetUuid),
            1 => (gen::enc_call(false, false, false), gen::addr7()).prop_map(|(call, dest)| Op::Encode { call, dest }),
        ];
        (gen::ctx_cfg_extreme(), proptest::collection::vec(op, 1..=6), prop_oneof![8000 => Just(1u32), 160 => 2u32..=8, 80 => 256u32..=400, 1 => 65_600u32..=66_000])
            .prop_map(|(cfg, mut ops, repeat)| {
                if repeat > 1000 {
                    ops.truncate(2); // keep the very long histories affordable
                }
                Case { cfg, ops, repeat }
            })
            .boxed()
    }
    fn budget(&self, tier: Tier) -> u64 {
        match tier {
            Tier::Quick => 600_000,
            Tier::Thorough => 12_000_000,
        }
    }
    fn required_labels(&self) -> Vec<&'static str> {
        vec!["short", "ctrl_short", "resp_cc_undefined", "req_cmd_unk", "req_cmd_01_op_2", "req_cmd_01_op_other", "req_cmd_06_sel_ff", "req_cmd_06_sel_n", "req_cmd_07", "req_cmd_00", "entry_process", "entry_decode", "entry_get_length", "empty_input", "no_vendor_sets", "history_of_256_or_more_rounds"]
    }
    fn enumerate(&self, tier: Tier, shard: usize, nshards: usize, f: &mut dyn FnMut(Case)) {
        let cfg = CtxCfg { addr: 0x23, msg_types: vec![0x7E, 0x05], vendors: vec![(0, 0x1234, 0xAB), (1, 0x11223344, 7)] };
        let mut idx = 0usize;
        let mut emit = |bytes: Vec<u8>| {
            idx += 1;
            if idx % nshards != shard {
                return;
            }
            f(Case {
                cfg: cfg.clone(),
                ops: vec![
                    Op::GetLength { bytes: bytes.clone() },
                    Op::Decode { bytes: bytes.clone() },
                    Op::Process { bytes, cap: 64, fill: 0x11 },
                ],
                repeat: 1,
            });
        };
        for p in base_packets() {
            for k in 0..=p.len() {
                let t = p[..k].to_vec();
                emit(t.clone());
                if k > 0 {
                    let mut t2 = t;
                    refmodel::fix_pec(&mut t2);
                    emit(t2);
                }
            }
            for pos in 0..p.len() - 1 {
                for v in 0..=255u8 {
                    if v == p[pos] {
                        continue;
                    }
                    let mut m = p.clone();
                    m[pos] = v;
                    refmodel::fix_pec(&mut m);
                    emit(m);
                }
            }
        }
        // every byte count 0..255 announced by each packet, with the byte at the announced
        // PEC position consistent with what precedes it (a complete frame inside the slice)
        for p in base_packets() {
            for k in 0..=255u8 {
                if k as usize + 4 == p.len() {
                    continue;
                }
                emit(crate::gen::announce_inner_frame(p.clone(), k, false));
                emit(crate::gen::announce_inner_frame(p.clone(), k, true));
            }
        }
        // two-step histories: an assignment of every EID value (including the
        // reserved 0x00 / 0xFF, which the bus may well send) followed by each query
        {
            let mut k = 0usize;
            for op in 0..2u8 {
                for eid in 0..=255u8 {
                    for (cmd, data) in [(0x01u8, vec![0x00u8, 0x42]), (0x02, vec![]), (0x03, vec![]), (0x04, vec![0xFF]), (0x05, vec![]), (0x06, vec![0x00]), (0x06, vec![0x01]), (0x0C, vec![])] {
                        k += 1;
                        if k % nshards != shard {
                            continue;
                        }
                        let first = refmodel::build_control_request(0x23, 0x34, 0x23, 0x34, 1, 0x01, &[op, eid]);
                        let second = refmodel::build_control_request(0x23, 0x34, 0x23, 0x34, 2, cmd, &data);
                        f(Case {
                            cfg: cfg.clone(),
                            ops: vec![Op::Process { bytes: first, cap: 64, fill: 0x33 }, Op::Process { bytes: second, cap: 64, fill: 0x44 }],
                            repeat: 1,
                        });
                    }
                }
            }
        }
        // every control byte x command x completion code x data length (see C09)
        let cfg2 = cfg.clone();
        super::enumer::for_each_control_packet(tier, shard, nshards, &mut |bytes| {
            f(Case { cfg: cfg2.clone(), ops: vec![Op::Process { bytes, cap: 64, fill: 0x22 }], repeat: 1 });
        });
    }
    fn enumerated_desc(&self, tier: Tier) -> Option<String> {
        Some(format!("for each of 24 reference-encoded packets (all message types, requests and responses): every truncation point 0..len (as is and with the PEC repaired), every other value of every byte position before the PEC (PEC repaired), and every announced byte count 0..255 with a consistent byte at the announced PEC position (final PEC as is and repaired), each through get_length, decode_packet and process_packet; two-step histories (Set Endpoint ID with operation Set/Force and every EID byte 0..255, then each of 8 requests); plus process_packet on control messages with {} control bytes x all 256 command codes x completion codes x every data length 0..{}", if tier == Tier::Thorough { "all 256" } else { "10" }, if tier == Tier::Thorough { 20 } else { 18 }))
    }
    fn run(&self, case: &Case) -> CaseResult {
        let mut r = CaseResult::default();
        let store = CtxStore::new(&case.cfg);
        let mut ctx = store.ctx();
        if case.cfg.vendors.is_empty() {
            r.label("no_vendor_sets");
        }
        if case.repeat >= 256 {
            r.label("history_of_256_or_more_rounds");
        }
        let rounds = case.repeat.clamp(1, 100_000) as usize;
        for (i, op) in (0..rounds).flat_map(|k| case.ops.iter().enumerate().map(move |(j, o)| (k * case.ops.len() + j, o))) {
            let (entry, bytes): (&'static str, &[u8]) = match op {
                Op::Process { bytes, .. } => ("process", bytes),
                Op::Decode { bytes } => ("decode", bytes),
                Op::GetLength { bytes } => ("get_length", bytes),
                other => {
                    // accessor calls, UUID updates and encodes are part of the history
                    let _ = sut::apply_op(&mut ctx, other);
                    continue;
                }
            };
            let class = entry_class(bytes);
            r.label(intern(class.clone()));
            r.label(match entry {
                "process" => "entry_process",
                "decode" => "entry_decode",
                _ => "entry_get_length",
            });
            if bytes.is_empty() {
                r.label("empty_input");
            }
            let f = refmodel::ref_decode(bytes);
            if f.n >= 10 && f.hdr_ok && f.type_ok {
                r.nontrivial = true;
            }
            let obs = sut::apply_op(&mut ctx, op);
            let panic_msg = match &obs {
                sut::Obs::Proc { proc, .. } => match &proc.dec {
                    Dec::Panic(m) => Some(m.clone()),
                    _ => None,
                },
                sut::Obs::Dec(Dec::Panic(m)) => Some(m.clone()),
                sut::Obs::Len(Len::Panic(m)) => Some(m.clone()),
                _ => None,
            };
            if let Some(m) = panic_msg {
                r.fail(
                    format!("C10:{}:{}:{}", entry, sut::panic_kind(&m), class),
                    format!("step {} ({}) on input {} ({} bytes) panicked: {}", i, entry, hex(&bytes[..bytes.len().min(48)]), bytes.len(), m),
                );
                break;
            }
        }
        r
    }
}
