//! C13 — the endpoint's EID is the last one assigned, and nothing else changes it.

use super::endpoint::run_model;
use crate::engine::*;
use crate::gen;
use proptest::prelude::*;

pub use super::c12::Case;

pub struct C13;

impl Prop for C13 {
    type Case = Case;
    fn id(&self) -> &'static str {
        "C13"
    }
    fn rule(&self) -> String {
        "generated (model-based; the whole operation vector shrinks): histories of 1-40 operations on a random responder: processed Set Endpoint ID requests (operations Set, Force, SetDiscoveredFlag, Reset; EIDs 0x01..0xFE; any requester and instance id), Get Endpoint ID requests, other valid requests / responses / vendor / SPDM packets, valid Set Endpoint ID requests with a wrong PEC, an 8-bit burst, or a wrong data length, decode-only calls of valid Set Endpoint ID requests, get_length calls, direct accessor calls on either half, UUID updates and plain encodes (including the EID-reporting response encoders). oracle: reference endpoint (eid_req, eid_resp), both 0 initially; an accepted Set/Force sets both; an accessor sets its own half; nothing else changes either. After every step both accessors are compared; Get Endpoint ID responses must carry eid_resp; an accepted assignment must be answered with Success, status accepted and the new EID; SetDiscoveredFlag with completion code 0x02. non-trivial = at least 2 accepted assignments with different EIDs, at least one step after the last assignment, and at least one unapplied (corrupted / rejected / decode-only / non-assigning) Set Endpoint ID carrying a different EID; distinct by hash".into()
    }
    fn assumptions(&self) -> Vec<String> {
        vec![
            "Set Endpoint ID requests carrying reserved EIDs 0x00/0xFF or reserved operation values > 3 are outside the quantifier: the model resynchronises from the accessors after such a step".into(),
            "a step on which the library panics is treated as having no specified effect (C10 reports the panic)".into(),
        ]
    }
    fn strategy(&self, _tier: Tier) -> BoxedStrategy<Case> {
        gen::responder_case([14, 6, 1, 1, 1, 1, 2], 6, 1, 40).prop_map(|(cfg, ops)| Case { cfg, ops }).boxed()
    }
    fn budget(&self, tier: Tier) -> u64 {
        match tier {
            Tier::Quick => 150_000,
            Tier::Thorough => 3_000_000,
        }
    }
    fn required_labels(&self) -> Vec<&'static str> {
        vec!["two_assignments", "unapplied_seteid_other_eid", "eid_reports_checked", "nontrivial"]
    }
    fn enumerate(&self, tier: Tier, shard: usize, nshards: usize, f: &mut dyn FnMut(Case)) {
        use crate::calls::*;
        use crate::refmodel::{build_control_request, fix_pec};
        let a = 0x23u8;
        let s = 0x34u8;
        let cfg = CtxCfg { addr: a, msg_types: vec![0x7E], vendors: vec![(0, 0x1234, 0xAB)] };
        let proc_ = |bytes: Vec<u8>| Op::Process { bytes, cap: 64, fill: 0 };
        let set = |op: u8, eid: u8| build_control_request(a, s, a, s, 1, 0x01, &[op, eid]);
        let mut bad_pec = set(0, 0x66);
        let n = bad_pec.len();
        bad_pec[n - 1] ^= 0x40;
        let mut wrong_len = build_control_request(a, s, a, s, 1, 0x01, &[0, 0x6A, 0]);
        fix_pec(&mut wrong_len);
        let alphabet: Vec<Op> = vec![
            proc_(set(0, 0x11)),
            proc_(set(1, 0x22)),
            proc_(set(3, 0x33)),
            proc_(set(2, 0x44)),
            proc_(set(4, 0x55)),
            proc_(bad_pec),
            Op::Decode { bytes: set(0, 0x77) },
            proc_(build_control_request(a, s, a, s, 2, 0x02, &[])),
            Op::SetReqEid(0x88),
            Op::SetRespEid(0x99),
            proc_(build_control_request(a, s, a, s, 3, 0x04, &[0xFF])),
            proc_(wrong_len),
            Op::Encode { call: EncCall::RespGetEndpointId { cc: 0, etype: 0, idtype: 0, fairness: false }, dest: s },
        ];
        let k = alphabet.len();
        let maxlen = if tier == Tier::Thorough { 6 } else { 4 };
        let mut idx = 0usize;
        for len in 1..=maxlen {
            let total = k.pow(len as u32);
            for code in 0..total {
                idx += 1;
                if idx % nshards != shard {
                    continue;
                }
                let mut c = code;
                let mut ops = Vec::with_capacity(len);
                for _ in 0..len {
                    ops.push(alphabet[c % k].clone());
                    c /= k;
                }
                f(Case { cfg: cfg.clone(), ops });
            }
        }
    }
    fn enumerated_desc(&self, tier: Tier) -> Option<String> {
        Some(format!("bounded-exhaustive histories: every sequence of length 1..{} over a 13-letter alphabet (Set EID with operations Set, Force, SetDiscoveredFlag, Reset and reserved byte 0x04, each carrying a different EID; a Set with a wrong PEC; a decode-only Set; a Set with a wrong data length; Get EID; the two accessors; another request; a direct Get Endpoint ID response encode)", if tier == Tier::Thorough { 6 } else { 4 }))
    }
    fn run(&self, case: &Case) -> CaseResult {
        let mut r = CaseResult::default();
        let t = run_model(&case.cfg, &case.ops);
        let s = &t.stats;
        let distinct = s.assignments.windows(2).any(|w| w[0] != w[1]);
        if distinct {
            r.label("two_assignments");
        }
        if s.unapplied_seteid_other > 0 {
            r.label("unapplied_seteid_other_eid");
        }
        if s.eid_reports_checked > 0 {
            r.label("eid_reports_checked");
        }
        if distinct && s.steps_after_last_assignment > 0 && s.unapplied_seteid_other > 0 {
            r.nontrivial = true;
            r.label("nontrivial");
        }
        for rep in t.reports.into_iter().filter(|x| x.prop == "C13") {
            r.fail(rep.sig, rep.detail);
        }
        r
    }
}
