//! C06 — control request bodies follow the DSP0236 command layouts.

use super::common::*;
use crate::calls::*;
use crate::engine::*;
use crate::gen;
use crate::refmodel::{self, RefEnc};
use crate::sut::Enc;
use proptest::prelude::*;

pub struct C06;

fn swap_sensitive(c: &EncCall) -> bool {
    match c {
        EncCall::ReqAllocateEids { op, pool, start } => pool != start && ALLOC_OPS[*op as usize] != *pool,
        EncCall::ReqQueryHop { eid, mt } => *eid != MSG_TYPES[*mt as usize],
        EncCall::ReqSetEndpointId { op, eid } => SET_EID_OPS[*op as usize] != *eid,
        EncCall::ReqResolveUuid { uuid, handle } => uuid[0] != *handle && uuid[15] != *handle,
        EncCall::ReqRoutingUpdate { entries } => entries.len() >= 2 && entries[0] != entries[1],
        _ => false,
    }
}

impl Prop for C06 {
    type Case = EncCase;
    fn id(&self) -> &'static str {
        "C06"
    }
    fn rule(&self) -> String {
        "generated: the 17 implemented control request encoders x every byte parameter over 0..255 (Set EID: 0x01..0xFE) x every enum variant x 0-7 routing entries of arbitrary raw content x arbitrary UUIDs, poisoned output buffers. oracle: bytes 9..len-1 equal the reference body [0x80, DSP0236 code, parameters in specification order]. non-trivial = encoder returned Ok; distinct by hash of (environment, call)".into()
    }
    fn assumptions(&self) -> Vec<String> {
        vec!["request_tx_rate_limit, update_rate_limmit and query_supported_interfaces end in unimplemented!() by construction and are not among the 17 implemented encoders".into()]
    }
    fn strategy(&self, _tier: Tier) -> BoxedStrategy<EncCase> {
        gen::enc_pair(gen::dest_any().boxed(), gen::req_call(false)).prop_map(|(env, call)| EncCase { env, call }).boxed()
    }
    fn budget(&self, tier: Tier) -> u64 {
        match tier {
            Tier::Quick => 800_000,
            Tier::Thorough => 12_000_000,
        }
    }
    fn required_labels(&self) -> Vec<&'static str> {
        vec![
            "req_set_endpoint_id", "req_get_endpoint_id", "req_get_endpoint_uuid", "req_get_mctp_version_support",
            "req_get_message_type_support", "req_get_vendor_defined_message_support", "req_resolve_endpoint_id",
            "req_allocate_endpoint_ids", "req_routing_information_update", "req_get_routing_table_entries",
            "req_prepare_for_endpoint_discovery", "req_endpoint_discovery", "req_discovery_notify", "req_get_network_id",
            "req_query_hop", "req_resolve_uuid", "req_query_rate_limit", "swap_sensitive",
        ]
    }
    fn enumerate(&self, tier: Tier, shard: usize, nshards: usize, f: &mut dyn FnMut(EncCase)) {
        let mut idx = 0usize;
        super::enumer::for_each_enc_case(tier, false, false, false, &mut |env, call| {
            if !call.is_request_encoder() {
                return;
            }
            idx += 1;
            if idx % nshards == shard {
                // the body must not depend on the destination: a few destinations per call,
                // including the broadcast and null EIDs
                let mut env = env;
                env.dest = [0x34u8, 0x00, 0x7F, 0x80, 0xFF][idx / nshards % 5];
                f(EncCase { env, call });
            }
        });
        // every destination byte for the parameterless and discovery requests
        for dest in 0..=255u8 {
            if (dest as usize) % nshards != shard {
                continue;
            }
            for call in [EncCall::ReqGetEndpointId, EncCall::ReqPrepareDiscovery, EncCall::ReqEndpointDiscovery, EncCall::ReqDiscoveryNotify, EncCall::ReqGetNetworkId, EncCall::ReqQueryRateLimit, EncCall::ReqGetMsgTypes, EncCall::ReqGetEndpointUuid] {
                let env = EncEnv { addr: 0x23, dest, eid_req: 0, eid_resp: 0, eid_via_process: false, hist: vec![] };
                f(EncCase { env, call });
            }
        }
    }
    fn enumerated_desc(&self, tier: Tier) -> Option<String> {
        Some(format!("every value 0..255 of every single-byte request parameter (Set EID: 4 operations x EIDs 0x01..0xFE; vendor selector; resolve EID; routing-table handle; Query Hop EID x 6 message types; Resolve UUID handle), all 5 version queries, every routing entry count 0..7, 16 one-hot UUIDs, Allocate Endpoint IDs: {}", if tier == Tier::Thorough { "all 3 x 256 x 256 (operation, pool size, first EID) triples" } else { "3 operations x 768 (pool, first EID) pairs covering every value of each byte" }))
    }
    fn run(&self, case: &EncCase) -> CaseResult {
        let mut r = CaseResult::default();
        let kind = case.call.kind();
        let RefEnc::Packet(p) = refmodel::ref_encode(&case.call, case.env.eid_resp) else { return r };
        r.label(kind);
        if swap_sensitive(&case.call) {
            r.label("swap_sensitive");
        }
        let ((e, buf), (e_again, buf_again)) = encode_twice_in(&case.env, &case.call, BIG, |i| 0xD0 | (i as u8 & 0x0F));
        let len = match e {
            Enc::Ok(n) => n,
            other => {
                // the quantifier covers every value of every parameter: each must be encodable
                r.fail(format!("C06:{}:valid_arguments_not_encoded", kind), format!("the request encoder returned {:?} for parameters inside the property's quantifier: {:?} (context EIDs {:#04x}/{:#04x})", other, case.call, case.env.eid_req, case.env.eid_resp));
                return r;
            }
        };
        // the same request encoded again on the same context has the same body
        // (instance ID 0 every time, nothing consumed)
        match e_again {
            Enc::Ok(n2) if n2 == len && buf_again[..len] == buf[..len] => {}
            Enc::Ok(n2) => {
                let m = n2.min(len).min(buf.len());
                r.fail(format!("C06:{}:second_encode_differs", kind), format!("the same request encoded twice in a row on one context: first {} ({} bytes), then {} ({} bytes)", hex(&buf[..len.min(buf.len())]), len, hex(&buf_again[..m]), n2));
            }
            other => r.fail(format!("C06:{}:second_encode_differs", kind), format!("the same request encoded twice in a row on one context: first Ok({}), then {:?}", len, other)),
        }
        if len < 12 || len > buf.len() {
            r.fail(format!("C06:{}:len", kind), format!("a control request of {} bytes cannot hold its headers", len));
            return r;
        }
        r.nontrivial = true;
        // the same call into a buffer of exactly the reported length must give
        // the same body (metamorphic; independent of the reference, so that an
        // open finding about the body itself is not reported twice)
        let (e2, buf2) = encode_in(&case.env, &case.call, len, |i| 0x70 | (i as u8 & 0x0F));
        match e2 {
            Enc::Ok(n2) if n2 == len => {
                if buf2[9..len - 1] != buf[9..len - 1] {
                    r.fail(format!("C06:{}:body_differs_in_exact_fit_buffer", kind), format!("encoded into a buffer of exactly {} bytes the body is {}, into a large buffer {}", len, hex(&buf2[9..len - 1]), hex(&buf[9..len - 1])));
                }
            }
            Enc::Ok(n2) => r.fail(format!("C06:{}:body_differs_in_exact_fit_buffer", kind), format!("encoded into a buffer of exactly {} bytes the encoder reports {} bytes (large buffer: {}): parameters were dropped or added", len, n2, len)),
            _ => {} // refusing / panicking on an exact-fit buffer is C16's business
        }
        let body = &buf[9..len - 1];
        if body == &p.body[..] {
            return r;
        }
        if body[0] != 0x80 {
            r.fail(format!("C06:{}:ctrl_byte={:#04x}", kind, body[0]), format!("control byte is {:#04x}, want 0x80 (rq=1, d=0, rsvd=0, instance 0)", body[0]));
        }
        if body[1] != p.body[1] {
            r.fail(format!("C06:{}:cmd={:#04x}", kind, body[1]), format!("command code is {:#04x}, DSP0236 assigns {:#04x}", body[1], p.body[1]));
        }
        if body[2..] != p.body[2..] {
            r.fail(format!("C06:{}:params", kind), format!("request parameters are {}, want {}", hex(&body[2..]), hex(&p.body[2..])));
        }
        r
    }
}
