//! C18 — header views read and write exactly their documented bit positions.

use crate::engine::*;
use libmctp::base_packet::{MCTPMessageBodyHeader, MCTPTransportHeader};
use libmctp::control_packet::MCTPControlMessageHeader;
use libmctp::smbus_proto::{MCTPSMBusHeader, SMBusRoutingInformationUpdateEntry};
use libmctp::vendor_packets::{IANAMessageFormat, PCIMessageFormat};
use proptest::prelude::*;
use serde::{Deserialize, Serialize};

/// Independent field table: (name, first byte, shift within the big-endian
/// value of the field's bytes, width in bits, number of bytes spanned).
/// Written from the documented wire layouts (DSP0237 SMBus header: bit 0 of
/// each byte is the least significant; DSP0236 transport/control headers: bit
/// 7 first).
#[derive(Clone, Copy)]
pub struct Field {
    pub name: &'static str,
    pub byte: usize,
    pub shift: u32,
    pub width: u32,
    pub span: usize,
}

const fn f(name: &'static str, byte: usize, shift: u32, width: u32) -> Field {
    Field { name, byte, shift, width, span: 1 }
}

pub const HDR_NAMES: [&str; 7] = ["smbus", "transport", "body", "control", "routing_entry", "pci", "iana"];
pub const HDR_LEN: [usize; 7] = [4, 4, 1, 2, 4, 2, 4];

pub fn fields(hdr: u8) -> &'static [Field] {
    const SMBUS: [Field; 6] = [
        f("dest_read_write", 0, 0, 1),
        f("dest_slave_addr", 0, 1, 7),
        f("command_code", 1, 0, 8),
        f("byte_count", 2, 0, 8),
        f("source_read_write", 3, 0, 1),
        f("source_slave_addr", 3, 1, 7),
    ];
    const TRANSPORT: [Field; 8] = [
        f("hdr_version", 0, 0, 4),
        f("dest_endpoint_id", 1, 0, 8),
        f("source_endpoint_id", 2, 0, 8),
        f("som", 3, 7, 1),
        f("eom", 3, 6, 1),
        f("pkt_seq", 3, 4, 2),
        f("to", 3, 3, 1),
        f("msg_tag", 3, 0, 3),
    ];
    const BODY: [Field; 1] = [f("msg_type", 0, 0, 7)];
    const CONTROL: [Field; 4] = [f("rq", 0, 7, 1), f("d", 0, 6, 1), f("instance_id", 0, 0, 5), f("command_code", 1, 0, 8)];
    const ROUTING: [Field; 4] = [f("entry_type", 0, 0, 4), f("eid_range_size", 1, 0, 8), f("first_eid", 2, 0, 8), f("physical_address", 3, 0, 8)];
    const PCI: [Field; 1] = [Field { name: "vendor_id", byte: 0, shift: 0, width: 16, span: 2 }];
    const IANA: [Field; 1] = [Field { name: "vendor_id", byte: 0, shift: 0, width: 32, span: 4 }];
    match hdr {
        0 => &SMBUS,
        1 => &TRANSPORT,
        2 => &BODY,
        3 => &CONTROL,
        4 => &ROUTING,
        5 => &PCI,
        _ => &IANA,
    }
}

fn mask(width: u32) -> u64 {
    if width >= 64 {
        u64::MAX
    } else {
        (1u64 << width) - 1
    }
}

fn ref_get(raw: &[u8; 4], fd: &Field) -> u32 {
    let mut v: u64 = 0;
    for i in 0..fd.span {
        v = (v << 8) | raw[fd.byte + i] as u64;
    }
    ((v >> fd.shift) & mask(fd.width)) as u32
}

fn ref_set(raw: &[u8; 4], fd: &Field, value: u32) -> [u8; 4] {
    let mut v: u64 = 0;
    for i in 0..fd.span {
        v = (v << 8) | raw[fd.byte + i] as u64;
    }
    let m = mask(fd.width) << fd.shift;
    v = (v & !m) | (((value as u64) & mask(fd.width)) << fd.shift);
    let mut out = *raw;
    for i in 0..fd.span {
        out[fd.byte + i] = (v >> (8 * (fd.span - 1 - i))) as u8;
    }
    out
}

/// The library's getter for (header, field index) on `raw`.
fn sut_get(hdr: u8, field: usize, raw: &[u8; 4]) -> u32 {
    match hdr {
        0 => {
            let h = MCTPSMBusHeader::new_from_buf(*raw);
            (match field {
                0 => h.dest_read_write(),
                1 => h.dest_slave_addr(),
                2 => h.command_code(),
                3 => h.byte_count(),
                4 => h.source_read_write(),
                _ => h.source_slave_addr(),
            }) as u32
        }
        1 => {
            let h = MCTPTransportHeader(*raw);
            (match field {
                0 => h.hdr_version(),
                1 => h.dest_endpoint_id(),
                2 => h.source_endpoint_id(),
                3 => h.som(),
                4 => h.eom(),
                5 => h.pkt_seq(),
                6 => h.to(),
                _ => h.msg_tag(),
            }) as u32
        }
        2 => MCTPMessageBodyHeader([raw[0]]).msg_type() as u32,
        3 => {
            let h = MCTPControlMessageHeader::new_from_buf([raw[0], raw[1]]);
            (match field {
                0 => h.rq(),
                1 => h.d(),
                2 => h.instance_id(),
                _ => h.command_code(),
            }) as u32
        }
        4 => {
            let h = SMBusRoutingInformationUpdateEntry::new_from_buf(*raw);
            (match field {
                0 => h.entry_type(),
                1 => h.eid_range_size(),
                2 => h.first_eid(),
                _ => h.physical_address(),
            }) as u32
        }
        5 => PCIMessageFormat::new_from_buf([raw[0], raw[1]]).vendor_id() as u32,
        _ => IANAMessageFormat::new_from_buf(*raw).vendor_id(),
    }
}

/// The library's setter; returns the buffer afterwards and the read-back.
fn sut_set(hdr: u8, field: usize, raw: &[u8; 4], value: u32) -> ([u8; 4], u32) {
    let v8 = value as u8;
    match hdr {
        0 => {
            let mut h = MCTPSMBusHeader::new_from_buf(*raw);
            match field {
                0 => h.set_dest_read_write(v8),
                1 => h.set_dest_slave_addr(v8),
                2 => h.set_command_code(v8),
                3 => h.set_byte_count(v8),
                4 => h.set_source_read_write(v8),
                _ => h.set_source_slave_addr(v8),
            }
            (h.0, sut_get(hdr, field, &h.0))
        }
        1 => {
            let mut h = MCTPTransportHeader(*raw);
            match field {
                0 => h.set_hdr_version(v8),
                1 => h.set_dest_endpoint_id(v8),
                2 => h.set_source_endpoint_id(v8),
                3 => h.set_som(v8),
                4 => h.set_eom(v8),
                5 => h.set_pkt_seq(v8),
                6 => h.set_to(v8),
                _ => h.set_msg_tag(v8),
            }
            (h.0, sut_get(hdr, field, &h.0))
        }
        2 => {
            let mut h = MCTPMessageBodyHeader([raw[0]]);
            h.set_msg_type(v8);
            let out = [h.0[0], raw[1], raw[2], raw[3]];
            (out, sut_get(hdr, field, &out))
        }
        3 => {
            let mut h = MCTPControlMessageHeader::new_from_buf([raw[0], raw[1]]);
            match field {
                0 => h.set_rq(v8),
                1 => h.set_d(v8),
                2 => h.set_instance_id(v8),
                _ => h.set_command_code(v8),
            }
            let out = [h.0[0], h.0[1], raw[2], raw[3]];
            (out, sut_get(hdr, field, &out))
        }
        4 => {
            let mut h = SMBusRoutingInformationUpdateEntry::new_from_buf(*raw);
            match field {
                0 => h.set_entry_type(v8),
                1 => h.set_eid_range_size(v8),
                2 => h.set_first_eid(v8),
                _ => h.set_physical_address(v8),
            }
            (h.0, sut_get(hdr, field, &h.0))
        }
        5 => {
            let mut h = PCIMessageFormat::new_from_buf([raw[0], raw[1]]);
            h.set_vendor_id(value as u16);
            let out = [h.0[0], h.0[1], raw[2], raw[3]];
            (out, sut_get(hdr, field, &out))
        }
        _ => {
            let mut h = IANAMessageFormat::new_from_buf(*raw);
            h.set_vendor_id(value);
            (h.0, sut_get(hdr, field, &h.0))
        }
    }
}

/// Getter through a view laid over a buffer that is longer than the header
/// (the views are generic over `AsRef<[u8]>`; e.g. over a received payload).
fn sut_get_long(hdr: u8, field: usize, buf: &[u8]) -> u32 {
    match hdr {
        0 => {
            let h = MCTPSMBusHeader(buf);
            (match field {
                0 => h.dest_read_write(),
                1 => h.dest_slave_addr(),
                2 => h.command_code(),
                3 => h.byte_count(),
                4 => h.source_read_write(),
                _ => h.source_slave_addr(),
            }) as u32
        }
        1 => {
            let h = MCTPTransportHeader(buf);
            (match field {
                0 => h.hdr_version(),
                1 => h.dest_endpoint_id(),
                2 => h.source_endpoint_id(),
                3 => h.som(),
                4 => h.eom(),
                5 => h.pkt_seq(),
                6 => h.to(),
                _ => h.msg_tag(),
            }) as u32
        }
        2 => MCTPMessageBodyHeader(buf).msg_type() as u32,
        3 => {
            let h = MCTPControlMessageHeader(buf);
            (match field {
                0 => h.rq(),
                1 => h.d(),
                2 => h.instance_id(),
                _ => h.command_code(),
            }) as u32
        }
        4 => {
            let h = SMBusRoutingInformationUpdateEntry(buf);
            (match field {
                0 => h.entry_type(),
                1 => h.eid_range_size(),
                2 => h.first_eid(),
                _ => h.physical_address(),
            }) as u32
        }
        5 => PCIMessageFormat(buf).vendor_id() as u32,
        _ => IANAMessageFormat(buf).vendor_id(),
    }
}

/// Setter through a view over a longer buffer (in place).
fn sut_set_long(hdr: u8, field: usize, buf: &mut [u8], value: u32) {
    let v8 = value as u8;
    match hdr {
        0 => {
            let mut h = MCTPSMBusHeader(buf);
            match field {
                0 => h.set_dest_read_write(v8),
                1 => h.set_dest_slave_addr(v8),
                2 => h.set_command_code(v8),
                3 => h.set_byte_count(v8),
                4 => h.set_source_read_write(v8),
                _ => h.set_source_slave_addr(v8),
            }
        }
        1 => {
            let mut h = MCTPTransportHeader(buf);
            match field {
                0 => h.set_hdr_version(v8),
                1 => h.set_dest_endpoint_id(v8),
                2 => h.set_source_endpoint_id(v8),
                3 => h.set_som(v8),
                4 => h.set_eom(v8),
                5 => h.set_pkt_seq(v8),
                6 => h.set_to(v8),
                _ => h.set_msg_tag(v8),
            }
        }
        2 => MCTPMessageBodyHeader(buf).set_msg_type(v8),
        3 => {
            let mut h = MCTPControlMessageHeader(buf);
            match field {
                0 => h.set_rq(v8),
                1 => h.set_d(v8),
                2 => h.set_instance_id(v8),
                _ => h.set_command_code(v8),
            }
        }
        4 => {
            let mut h = SMBusRoutingInformationUpdateEntry(buf);
            match field {
                0 => h.set_entry_type(v8),
                1 => h.set_eid_range_size(v8),
                2 => h.set_first_eid(v8),
                _ => h.set_physical_address(v8),
            }
        }
        5 => PCIMessageFormat(buf).set_vendor_id(value as u16),
        _ => IANAMessageFormat(buf).set_vendor_id(value),
    }
}

/// Value range of the setter's argument type.
fn value_bits(hdr: u8) -> u32 {
    match hdr {
        5 => 16,
        6 => 32,
        _ => 8,
    }
}

#[derive(Clone, Debug, Serialize, Deserialize, PartialEq, Eq, Hash)]
pub enum Case {
    Get { hdr: u8, raw: u32 },
    Set { hdr: u8, field: u8, raw: u32, value: u32 },
    /// get every field, then set one, through a view over a buffer that holds
    /// `tail` after the header bytes
    Long {
        hdr: u8,
        field: u8,
        raw: u32,
        value: u32,
        #[serde(with = "crate::calls::hexv")]
        tail: Vec<u8>,
    },
    /// MCTPTransportHeader::new_from_buf(raw bytes, version)
    TransportValid { raw: u32, version: u8 },
    /// MCTPMessageBodyHeader::new_from_buf([b])
    BodyValid { b: u8 },
    /// constructors: control header new(rq, d, instance, command byte via From<u8>),
    /// routing entry new(type index, range, first, phys), PCI/IANA new(id), transport new(version)
    NewControl { rq: bool, d: bool, iid: u8, cmd: u8 },
    NewRouting { ty: u8, range: u8, first: u8, phys: u8 },
    NewVendor { iana: bool, id: u32 },
    NewTransport { version: u8 },
    /// MCTPMessageBodyHeader::new(false, variant)  (index into calls::MSG_TYPES)
    NewBody { mt: u8 },
    /// the two validators called one after the other in this order (the views are
    /// plain values: what one call refused or accepted must not matter to the next)
    Seq { steps: Vec<SeqStep> },
    /// new_from_buf([first]) followed by new_from_buf([second]) for every second byte
    BodyPairs { first: u8 },
}

#[derive(Clone, Debug, Serialize, Deserialize, PartialEq, Eq, Hash)]
pub enum SeqStep {
    Body { b: u8 },
    Transport { raw: u32, version: u8 },
}

/// Validator calls of different cases must not interleave with a sequence case:
/// sequence cases hold this lock exclusively, single validator cases share it.
static VALIDATOR_CALLS: std::sync::RwLock<()> = std::sync::RwLock::new(());

fn check_transport(r: &mut CaseResult, raw: u32, version: u8, ctx: &str) {
    let b = raw.to_be_bytes();
    let want_ok = b[0] >> 4 == 0 && (b[0] & 0x0F) == version;
    let got = MCTPTransportHeader::new_from_buf(b, version);
    match (&got, want_ok) {
        (Ok(h), true) => {
            if h.0 != b {
                r.fail(format!("C18:transport:new_from_buf_changes_bytes{}", ctx), format!("new_from_buf({:02x?}) holds {:02x?}", b, h.0));
            }
        }
        (Err(()), false) => {}
        (Ok(_), false) => r.fail(format!("C18:transport:new_from_buf_accepts{}", ctx), format!("MCTPTransportHeader::new_from_buf({:02x?}, version {:#x}) succeeds although reserved bits = {:#x}, version nibble = {:#x}", b, version, b[0] >> 4, b[0] & 0xF)),
        (Err(()), true) => r.fail(format!("C18:transport:new_from_buf_rejects{}", ctx), format!("MCTPTransportHeader::new_from_buf({:02x?}, version {:#x}) fails although reserved bits are zero and the version matches", b, version)),
    }
}

fn body_ok(b: u8) -> bool {
    b & 0x80 == 0 && matches!(b & 0x7F, 0x00 | 0x05 | 0x06 | 0x7E | 0x7F)
}

fn check_body(r: &mut CaseResult, b: u8, ctx: &str) {
    let want_ok = body_ok(b);
    let got = MCTPMessageBodyHeader::new_from_buf([b]);
    match (&got, want_ok) {
        (Ok(h), true) => {
            if h.0 != [b] {
                r.fail(format!("C18:body:new_from_buf_changes_bytes{}", ctx), format!("new_from_buf([{:#04x}]) holds {:02x?}", b, h.0));
            }
        }
        (Err(()), false) => {}
        (Ok(_), false) => r.fail(format!("C18:body:new_from_buf_accepts{}", ctx), format!("MCTPMessageBodyHeader::new_from_buf([{:#04x}]) succeeds although the integrity bit is set or the type is unsupported", b)),
        (Err(()), true) => r.fail(format!("C18:body:new_from_buf_rejects{}", ctx), format!("MCTPMessageBodyHeader::new_from_buf([{:#04x}]) fails for a supported type with the integrity bit clear", b)),
    }
}

pub struct C18;

fn raw_bytes(hdr: u8, raw: u32) -> [u8; 4] {
    let mut b = raw.to_be_bytes();
    // unused trailing bytes of shorter headers are kept (they must not matter)
    let n = HDR_LEN[hdr as usize];
    let _ = &mut b[n..];
    b
}

fn patterns32() -> Vec<u32> {
    let mut v = vec![0u32, u32::MAX, 0xAAAA_AAAA, 0x5555_5555, 0x0F0F_0F0F, 0xF0F0_F0F0, 0x0123_4567, 0x89AB_CDEF];
    for i in 0..32 {
        v.push(1u32 << i);
        v.push(!(1u32 << i));
    }
    // every value of every byte on several backgrounds
    for bg in [0u32, u32::MAX, 0xA5A5_A5A5, 0x5A5A_5A5A] {
        for pos in 0..4 {
            for x in 0..=255u32 {
                let sh = 8 * (3 - pos);
                v.push((bg & !(0xFF << sh)) | (x << sh));
            }
        }
    }
    v
}

fn set_values(tier: Tier, width_bits: u32) -> Vec<u32> {
    if width_bits == 8 {
        if tier == Tier::Thorough {
            (0..=255u32).collect()
        } else {
            vec![0, 1, 2, 3, 7, 8, 0x0F, 0x10, 0x1F, 0x20, 0x3F, 0x40, 0x55, 0x7F, 0x80, 0xAA, 0xFE, 0xFF]
        }
    } else if width_bits == 16 {
        vec![0, 1, 0xFF, 0x100, 0x1234, 0x8000, 0xABCD, 0xFFFF]
    } else {
        vec![0, 1, 0xFF, 0x100, 0x1234_5678, 0x8000_0000, 0x89AB_CDEF, 0xFFFF_FFFF]
    }
}

impl Prop for C18 {
    type Case = Case;
    fn id(&self) -> &'static str {
        "C18"
    }
    fn rule(&self) -> String {
        "enumerated: message-body header: all 2^8 raw values (get, validator, set with every value); control header and PCI header: all 2^16 raw values (get of every field; set of every field with 18 boundary values in quick, all 256 in thorough for the control header); 32-bit views (SMBus, transport, routing entry, IANA): walking-one/zero patterns, every value of every byte on four backgrounds (get of every field and set of every field x boundary values); transport validator: every buf[0] x every version byte; every ordered pair of message-body validations (256 x 256) and 4 200 pairs involving the transport validator, each pair run without other validator calls of this process in between; constructors. generated: sequences of 2-8 validator calls; random (header, field, raw, value) over the full u32 raw range and the setter's full argument type (2M quick / 64M thorough). oracle: an independent (byte, shift, width) table per field from the documented layouts: get = (raw >> shift) & mask; after set raw' = raw & !fieldmask | (value & mask) << shift, read-back = value & mask, every other bit unchanged; MCTPTransportHeader::new_from_buf <=> reserved nibble 0 and version nibble = version; MCTPMessageBodyHeader::new_from_buf <=> bit 7 clear and type supported. non-trivial = raw value with at least one bit set outside the field under test (what a zeroed header cannot show); enumerated cases are distinct by construction".into()
    }
    fn assumptions(&self) -> Vec<String> {
        vec!["private fields (rsvd, ic) have no public accessor and are exercised only through the validators".into()]
    }
    fn strategy(&self, _tier: Tier) -> BoxedStrategy<Case> {
        prop_oneof![
            3 => (0u8..7, any::<u32>()).prop_map(|(hdr, raw)| Case::Get { hdr, raw }),
            6 => (0u8..7, any::<u8>(), any::<u32>(), any::<u32>()).prop_map(|(hdr, fi, raw, value)| {
                let nf = fields(hdr).len();
                let field = ((fi as usize * nf) >> 8) as u8;
                let vb = value_bits(hdr);
                let value = if vb == 32 { value } else { value & ((1u32 << vb) - 1) };
                Case::Set { hdr, field, raw, value }
            }),
            2 => (0u8..7, any::<u8>(), any::<u32>(), any::<u32>(), proptest::collection::vec(any::<u8>(), 1..=12)).prop_map(|(hdr, fi, raw, value, tail)| {
                let nf = fields(hdr).len();
                let field = ((fi as usize * nf) >> 8) as u8;
                let vb = value_bits(hdr);
                let value = if vb == 32 { value } else { value & ((1u32 << vb) - 1) };
                Case::Long { hdr, field, raw, value, tail }
            }),
            1 => (any::<u32>(), prop_oneof![Just(1u8), 0u8..16, any::<u8>()]).prop_map(|(raw, version)| Case::TransportValid { raw, version }),
            1 => (any::<bool>(), any::<bool>(), any::<u8>(), any::<u8>()).prop_map(|(rq, d, iid, cmd)| Case::NewControl { rq, d, iid, cmd }),
            1 => (0u8..4, any::<u8>(), any::<u8>(), any::<u8>()).prop_map(|(ty, range, first, phys)| Case::NewRouting { ty, range, first, phys }),
            1 => (any::<bool>(), any::<u32>()).prop_map(|(iana, id)| Case::NewVendor { iana, id }),
            1 => proptest::collection::vec(
                prop_oneof![
                    // the ten bytes around the supported types, with and without the integrity bit
                    4 => (0u8..10).prop_map(|i| SeqStep::Body { b: [0x00u8, 0x05, 0x06, 0x7E, 0x7F, 0x80, 0x85, 0x86, 0xFE, 0xFF][i as usize] }),
                    2 => any::<u8>().prop_map(|b| SeqStep::Body { b }),
                    2 => (prop_oneof![Just(0x01u8), Just(0x11u8), Just(0x02u8), Just(0x00u8), any::<u8>()], any::<u32>(), prop_oneof![Just(1u8), 0u8..16, any::<u8>()])
                        .prop_map(|(b0, rest, version)| SeqStep::Transport { raw: ((b0 as u32) << 24) | (rest & 0x00FF_FFFF), version }),
                ],
                2..=8
            )
            .prop_map(|steps| Case::Seq { steps }),
        ]
        .boxed()
    }
    fn budget(&self, tier: Tier) -> u64 {
        match tier {
            Tier::Quick => 4_000_000,
            Tier::Thorough => 64_000_000,
        }
    }
    fn required_labels(&self) -> Vec<&'static str> {
        vec!["get", "set", "long_buffer", "transport_valid_ok", "transport_valid_err", "body_valid_ok", "body_valid_err", "new", "validator_sequence"]
    }
    fn enumerate(&self, tier: Tier, shard: usize, nshards: usize, f: &mut dyn FnMut(Case)) {
        let mut idx = 0usize;
        let mut emit = |c: Case| {
            idx += 1;
            if idx % nshards == shard {
                f(c);
            }
        };
        // body header: everything
        for b in 0..=255u32 {
            emit(Case::BodyValid { b: b as u8 });
            emit(Case::Get { hdr: 2, raw: b << 24 });
            for v in 0..=255u32 {
                emit(Case::Set { hdr: 2, field: 0, raw: b << 24, value: v });
            }
        }
        // 16-bit headers: all raw values
        for hdr in [3u8, 5u8] {
            let vals = set_values(tier, value_bits(hdr));
            for raw16 in 0..=0xFFFFu32 {
                let raw = raw16 << 16;
                emit(Case::Get { hdr, raw });
                for field in 0..fields(hdr).len() {
                    for v in &vals {
                        emit(Case::Set { hdr, field: field as u8, raw, value: *v });
                    }
                }
            }
        }
        // 32-bit headers: structured patterns
        let pats = patterns32();
        for hdr in [0u8, 1, 4, 6] {
            // thorough: every one of the 256 argument values of the 8-bit setters
            let vals = set_values(tier, value_bits(hdr));
            for raw in &pats {
                emit(Case::Get { hdr, raw: *raw });
                for field in 0..fields(hdr).len() {
                    for v in &vals {
                        emit(Case::Set { hdr, field: field as u8, raw: *raw, value: *v });
                    }
                }
            }
        }
        // views over longer buffers: every header x field x structured raws x 3 tails
        for hdr in 0u8..7 {
            for raw in [0u32, u32::MAX, 0x1122_3344, 0xA5C3_0F96, 0x8000_0001] {
                for field in 0..fields(hdr).len() {
                    for tail in [vec![0x55u8], vec![0x66, 0x77, 0x88, 0x99], vec![0xFF; 9]] {
                        for value in [0u32, 1, 0xFFFF_FFFF, 0x5A5A_5A5A] {
                            let vb = value_bits(hdr);
                            let value = if vb == 32 { value } else { value & ((1u32 << vb) - 1) };
                            emit(Case::Long { hdr, field: field as u8, raw, value, tail: tail.clone() });
                        }
                    }
                }
            }
        }
        // transport validator: every first byte x every version
        for b0 in 0..=255u32 {
            for version in 0..=255u8 {
                emit(Case::TransportValid { raw: (b0 << 24) | 0x00A5_5A3C, version });
            }
        }
        for version in 0..=255u8 {
            emit(Case::NewTransport { version });
        }
        // every ordered pair of body-header validations, and pairs of transport validations
        for first in 0..=255u8 {
            emit(Case::BodyPairs { first });
        }
        for (f0, fv) in [(0x01u8, 1u8), (0x11, 1), (0x02, 1), (0x01, 2), (0xF1, 1), (0x00, 0), (0xFF, 0xFF), (0x21, 0x21)] {
            for b0 in 0..=255u32 {
                for version in [1u8, (b0 & 0x0F) as u8] {
                    emit(Case::Seq { steps: vec![SeqStep::Transport { raw: ((f0 as u32) << 24) | 0x0012_3456, version: fv }, SeqStep::Transport { raw: (b0 << 24) | 0x00A5_5A3C, version }] });
                }
            }
            for b in [0x00u8, 0x05, 0x06, 0x7E, 0x7F, 0x80, 0x01] {
                emit(Case::Seq { steps: vec![SeqStep::Transport { raw: ((f0 as u32) << 24) | 0x0012_3456, version: fv }, SeqStep::Body { b }] });
                emit(Case::Seq { steps: vec![SeqStep::Body { b }, SeqStep::Transport { raw: ((f0 as u32) << 24) | 0x0012_3456, version: fv }] });
            }
        }
        for mt in 0..6u8 {
            emit(Case::NewBody { mt });
        }
    }
    fn enumerated_desc(&self, tier: Tier) -> Option<String> {
        Some(format!(
            "{}body header: all 2^8 raws x (get, validator, set with all 256 values); control and PCI headers: all 2^16 raws x get and set of every field with {} values; SMBus/transport/routing/IANA: {} structured 32-bit patterns x get and set of every field x 18 values in quick / all 256 in thorough (8 for IANA); transport validator: all 256 first bytes x all 256 version values; all 65 536 ordered pairs of body-header validations and 4 208 pairs involving the transport validator; transport constructor: all 256 versions",
            if tier == Tier::Thorough { "every getter of the SMBus, transport, routing-entry and IANA views on all 2^32 raw values (exhaustive sweep); " } else { "" },
            if tier == Tier::Thorough { "all 256 (control) / 8 (PCI)" } else { "18 (control) / 8 (PCI)" },
            patterns32().len()
        ))
    }
    fn bulk(&self, tier: Tier, shard: usize, nshards: usize) -> Option<(u64, u64, Option<Case>)> {
        if tier != Tier::Thorough {
            return None;
        }
        // every one of the 2^32 raw values of the four 32-bit views, all getters
        let span = (1u64 << 32) / nshards as u64;
        let lo = span * shard as u64;
        let hi = if shard + 1 == nshards { 1u64 << 32 } else { lo + span };
        let mut n = 0u64;
        let mut nt = 0u64;
        for hdr in [0u8, 1, 4, 6] {
            let fs = fields(hdr);
            for raw in lo..hi {
                let b = (raw as u32).to_be_bytes();
                n += 1;
                if raw != 0 {
                    nt += 1;
                }
                for (i, fd) in fs.iter().enumerate() {
                    if sut_get(hdr, i, &b) != ref_get(&b, fd) {
                        return Some((n, nt, Some(Case::Get { hdr, raw: raw as u32 })));
                    }
                }
            }
        }
        Some((n, nt, None))
    }
    fn run(&self, case: &Case) -> CaseResult {
        let mut r = CaseResult::default();
        match case {
            Case::Get { hdr, raw } => {
                r.label("get");
                let b = raw_bytes(*hdr, *raw);
                let n = HDR_LEN[*hdr as usize];
                r.nontrivial = b[..n].iter().any(|x| *x != 0);
                for (i, fd) in fields(*hdr).iter().enumerate() {
                    let want = ref_get(&b, fd);
                    let got = sut_get(*hdr, i, &b);
                    if got != want {
                        r.fail(
                            format!("C18:{}:{}:get", HDR_NAMES[*hdr as usize], fd.name),
                            format!("{} header {:02x?}: {}() returns {:#x}, the documented position (byte {}, shift {}, width {}) holds {:#x}", HDR_NAMES[*hdr as usize], &b[..n], fd.name, got, fd.byte, fd.shift, fd.width, want),
                        );
                    }
                }
            }
            Case::Set { hdr, field, raw, value } => {
                r.label("set");
                let b = raw_bytes(*hdr, *raw);
                let n = HDR_LEN[*hdr as usize];
                let fd = &fields(*hdr)[*field as usize];
                let want = ref_set(&b, fd, *value);
                // non-trivial: some bit outside the field is set
                let cleared = ref_set(&b, fd, 0);
                r.nontrivial = cleared[..n].iter().any(|x| *x != 0);
                let (got, readback) = sut_set(*hdr, *field as usize, &b, *value);
                let hn = HDR_NAMES[*hdr as usize];
                if got[..n] != want[..n] {
                    // which kind of damage?
                    let own_ok = ref_get(&got, fd) == (*value as u64 & mask(fd.width)) as u32;
                    let what = if own_ok { "set_changes_other_bits" } else { "set_stores_wrong_value" };
                    r.fail(
                        format!("C18:{}:{}:{}", hn, fd.name, what),
                        format!("{} header {:02x?}: set_{}({:#x}) gives {:02x?}, want {:02x?}", hn, &b[..n], fd.name, value, &got[..n], &want[..n]),
                    );
                }
                let want_rb = (*value as u64 & mask(fd.width)) as u32;
                if readback != want_rb {
                    r.fail(format!("C18:{}:{}:readback", hn, fd.name), format!("{} header: after set_{}({:#x}) the getter returns {:#x}, want {:#x}", hn, fd.name, value, readback, want_rb));
                }
            }
            Case::Long { hdr, field, raw, value, tail } => {
                r.label("long_buffer");
                r.nontrivial = true;
                let hn = HDR_NAMES[*hdr as usize];
                let n = HDR_LEN[*hdr as usize];
                let head = raw_bytes(*hdr, *raw);
                let mut long: Vec<u8> = head[..n].to_vec();
                long.extend_from_slice(tail);
                // reference works on the 4-byte head (unused bytes are the tail's, which must not matter)
                let mut href = [0u8; 4];
                href[..n].copy_from_slice(&head[..n]);
                for (i, fd) in fields(*hdr).iter().enumerate() {
                    let got = match crate::sut::trap(|| sut_get_long(*hdr, i, &long)) {
                        Ok(g) => g,
                        Err(m) => {
                            r.fail(format!("C18:{}:{}:long_buffer_panic", hn, fd.name), format!("{}() on a view over a {}-byte buffer panicked: {}", fd.name, long.len(), m));
                            return r;
                        }
                    };
                    let want = ref_get(&href, fd);
                    if got != want {
                        r.fail(format!("C18:{}:{}:get_on_longer_buffer", hn, fd.name), format!("{} view over the {}-byte buffer {:02x?}: {}() returns {:#x}, the documented position holds {:#x}", hn, long.len(), long, fd.name, got, want));
                    }
                }
                let fd = &fields(*hdr)[*field as usize];
                let want = ref_set(&href, fd, *value);
                let mut after = long.clone();
                if let Err(m) = crate::sut::trap(|| sut_set_long(*hdr, *field as usize, &mut after, *value)) {
                    r.fail(format!("C18:{}:{}:long_buffer_panic", hn, fd.name), format!("set_{}() on a view over a {}-byte buffer panicked: {}", fd.name, long.len(), m));
                    return r;
                }
                if after[..n] != want[..n] || after[n..] != tail[..] {
                    r.fail(format!("C18:{}:{}:set_on_longer_buffer", hn, fd.name), format!("{} view over {:02x?}: set_{}({:#x}) gives {:02x?}, want head {:02x?} and the {} trailing bytes unchanged", hn, long, fd.name, value, after, &want[..n], tail.len()));
                }
            }
            Case::TransportValid { raw, version } => {
                let b = raw.to_be_bytes();
                let want_ok = b[0] >> 4 == 0 && (b[0] & 0x0F) == *version;
                r.label(if want_ok { "transport_valid_ok" } else { "transport_valid_err" });
                r.nontrivial = b[0] != 0;
                let _shared = VALIDATOR_CALLS.read().unwrap_or_else(|e| e.into_inner());
                check_transport(&mut r, *raw, *version, "");
            }
            Case::BodyValid { b } => {
                r.label(if body_ok(*b) { "body_valid_ok" } else { "body_valid_err" });
                r.nontrivial = true;
                let _shared = VALIDATOR_CALLS.read().unwrap_or_else(|e| e.into_inner());
                check_body(&mut r, *b, "");
            }
            Case::Seq { steps } => {
                r.label("validator_sequence");
                r.nontrivial = steps.len() >= 2;
                let _alone = VALIDATOR_CALLS.write().unwrap_or_else(|e| e.into_inner());
                for (i, st) in steps.iter().enumerate() {
                    let ctx = if i == 0 { "" } else { ":after_other_validations" };
                    let before = r.failures.len();
                    match st {
                        SeqStep::Body { b } => check_body(&mut r, *b, ctx),
                        SeqStep::Transport { raw, version } => check_transport(&mut r, *raw, *version, ctx),
                    }
                    if r.failures.len() > before {
                        if let Some(f) = r.failures.last_mut() {
                            f.detail = format!("call {} of the sequence {:02x?}: {}", i + 1, steps, f.detail);
                        }
                        break;
                    }
                }
            }
            Case::BodyPairs { first } => {
                r.label("validator_sequence");
                r.nontrivial = true;
                let _alone = VALIDATOR_CALLS.write().unwrap_or_else(|e| e.into_inner());
                for second in 0..=255u8 {
                    check_body(&mut r, *first, "");
                    let before = r.failures.len();
                    check_body(&mut r, second, ":after_other_validations");
                    if r.failures.len() > before {
                        if let Some(f) = r.failures.last_mut() {
                            f.detail = format!("right after new_from_buf([{:#04x}]): {}", first, f.detail);
                        }
                    }
                    if !r.failures.is_empty() {
                        break;
                    }
                }
            }
            Case::NewControl { rq, d, iid, cmd } => {
                r.label("new");
                r.nontrivial = true;
                let cc = libmctp::control_packet::CommandCode::from(*cmd);
                let code = cc as u8;
                let h = MCTPControlMessageHeader::new(*rq, *d, *iid, libmctp::control_packet::CommandCode::from(*cmd));
                let want = [((*rq as u8) << 7) | ((*d as u8) << 6) | (iid & 0x1F), code];
                if h.0 != want {
                    r.fail("C18:control:new".to_string(), format!("MCTPControlMessageHeader::new({}, {}, {:#x}, code {:#x}) = {:02x?}, want {:02x?}", rq, d, iid, code, h.0, want));
                }
            }
            Case::NewRouting { ty, range, first, phys } => {
                r.label("new");
                r.nontrivial = true;
                use libmctp::control_packet::RoutingInformationUpdateEntryType as T;
                let t = match ty {
                    0 => T::SingleEndpointNotBridge,
                    1 => T::EIDRangeIncludeBridge,
                    2 => T::SingleEndpointBridge,
                    _ => T::EIDRangeNotIncludeBridge,
                };
                let h = SMBusRoutingInformationUpdateEntry::new(t, *range, *first, *phys);
                let want = [(*ty).min(3), *range, *first, *phys];
                if h.0 != want {
                    r.fail("C18:routing_entry:new".to_string(), format!("SMBusRoutingInformationUpdateEntry::new(type {}, {:#x}, {:#x}, {:#x}) = {:02x?}, want {:02x?}", ty, range, first, phys, h.0, want));
                }
            }
            Case::NewVendor { iana, id } => {
                r.label("new");
                r.nontrivial = true;
                if *iana {
                    let h = IANAMessageFormat::new(*id);
                    if h.0 != id.to_be_bytes() {
                        r.fail("C18:iana:new".to_string(), format!("IANAMessageFormat::new({:#x}) = {:02x?}", id, h.0));
                    }
                } else {
                    let h = PCIMessageFormat::new(*id as u16);
                    if h.0 != (*id as u16).to_be_bytes() {
                        r.fail("C18:pci:new".to_string(), format!("PCIMessageFormat::new({:#x}) = {:02x?}", *id as u16, h.0));
                    }
                }
            }
            Case::NewBody { mt } => {
                r.label("new");
                r.nontrivial = true;
                let code = crate::calls::MSG_TYPES[*mt as usize];
                let h = MCTPMessageBodyHeader::new(false, crate::sut::mt_from_idx(*mt));
                // integrity bit clear (ic = false), the type stored truncated to its 7-bit field
                if h.0 != [code & 0x7F] {
                    r.fail("C18:body:new".to_string(), format!("MCTPMessageBodyHeader::new(false, type {:#04x}) = {:02x?}, want [{:#04x}] (integrity bit clear, 7-bit type)", code, h.0, code & 0x7F));
                }
            }
            Case::NewTransport { version } => {
                r.label("new");
                r.nontrivial = *version != 0;
                let h = MCTPTransportHeader::new(*version);
                let want = [version & 0x0F, 0, 0, 0];
                if h.0 != want {
                    r.fail("C18:transport:new".to_string(), format!("MCTPTransportHeader::new({:#x}) = {:02x?}, want {:02x?}", version, h.0, want));
                }
            }
        }
        r
    }
}
