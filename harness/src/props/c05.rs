//! C05 — MCTP transport header and message-type byte of encoded packets.

use super::common::*;
use crate::calls::*;
use crate::engine::*;
use crate::gen;
use crate::refmodel::{self, RefEnc};
use crate::sut::Enc;
use proptest::prelude::*;

pub struct C05;

impl Prop for C05 {
    type Case = EncCase;
    fn id(&self) -> &'static str {
        "C05"
    }
    fn rule(&self) -> String {
        "generated: every encoder x full-range arguments x own address and destination over all 256 byte values (weighted to 7-bit). checks b4=0x01, b5=destination as passed, b6=context address, b7=0xC8 for requests/vendor/SPDM (upper nibble 0xC for responses), b8=message type of the API with IC clear. non-trivial = encoder returned Ok; distinct by hash of (environment, call)".into()
    }
    fn assumptions(&self) -> Vec<String> {
        vec!["TO and tag bits of responses are not demanded (the property leaves them open)".into()]
    }
    fn strategy(&self, _tier: Tier) -> BoxedStrategy<EncCase> {
        (gen::enc_env(gen::dest_any().boxed()), gen::dest_any(), gen::enc_call(false, false, true))
            .prop_map(|(mut env, addr, call)| {
                env.addr = addr;
                EncCase { env, call }
            })
            .boxed()
    }
    fn budget(&self, tier: Tier) -> u64 {
        match tier {
            Tier::Quick => 200_000,
            Tier::Thorough => 6_000_000,
        }
    }
    fn required_labels(&self) -> Vec<&'static str> {
        vec!["type_00", "type_05", "type_06", "type_7e", "type_7f", "response", "dest>=0x80", "addr>=0x80"]
    }
    fn run(&self, case: &EncCase) -> CaseResult {
        let mut r = CaseResult::default();
        let env = &case.env;
        let kind = case.call.kind();
        let RefEnc::Packet(p) = refmodel::ref_encode(&case.call, env.eid_resp) else { return r };
        r.label(match p.type_byte {
            0x00 => "type_00",
            0x05 => "type_05",
            0x06 => "type_06",
            0x7E => "type_7e",
            _ => "type_7f",
        });
        if env.dest >= 0x80 {
            r.label("dest>=0x80");
        }
        if env.addr >= 0x80 {
            r.label("addr>=0x80");
        }
        let is_resp = case.call.is_response_encoder();
        if is_resp {
            r.label("response");
        }
        let (e, buf) = encode_in(env, &case.call, BIG, |_| 0x77);
        let Enc::Ok(len) = e else { return r };
        if len < 10 || len > buf.len() {
            return r;
        }
        r.nontrivial = true;
        let mut chk = |name: &str, got: u8, want: u8| {
            if got != want {
                r.fail(format!("C05:{}:{}", kind, name), format!("{}: got {:#04x}, want {:#04x} (header {})", name, got, want, hex(&buf[..9])));
            }
        };
        chk("version", buf[4], 0x01);
        chk("dest_eid", buf[5], env.dest);
        chk("src_eid", buf[6], env.addr);
        if is_resp {
            chk("flags", buf[7] & 0xF0, 0xC0);
        } else {
            chk("flags", buf[7], 0xC8);
        }
        chk("msg_type", buf[8], p.type_byte);
        r
    }
}
