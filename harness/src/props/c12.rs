//! C12 — responses are well-formed and correlate with the request they answer.

use super::endpoint::run_model;
use crate::calls::*;
use crate::engine::*;
use crate::gen;
use proptest::prelude::*;
use serde::{Deserialize, Serialize};

#[derive(Clone, Debug, Serialize, Deserialize, PartialEq, Eq, Hash)]
pub struct Case {
    pub cfg: CtxCfg,
    pub ops: Vec<Op>,
}

pub struct C12;

impl Prop for C12 {
    type Case = Case;
    fn id(&self) -> &'static str {
        "C12"
    }
    fn rule(&self) -> String {
        "generated: histories of 1-12 operations on a random validly configured responder (7-bit address, 0-30 message types, 1-16 vendor sets); the operations are mostly forged (reference-encoded) control requests for commands 0x01-0x06 and unsupported commands from a requester s in 0..127 (SMBus source address and source EID both s), instance id 0..31, D = 0, Set EID operation in {Set, Force, SetDiscoveredFlag, Reset} with EID 0x01..0xFE, any version-query byte, vendor selector < n; interleaved with corrupted requests, other traffic, accessor calls, UUID updates and direct encodes. oracle, for every response produced to an accepted request: R[0]=s<<1, R[1]=0x0F, R[2]=n-4, R[3]=a<<1|1, R[4]=0x01, R[5]=s, R[6]=a, R[7]&0xF0=0xC0, R[8]=0, R[9]&0x80=0, R[9]&0x1F=request instance id, R[10]=request command, n>=13, PEC correct (independent CRC), get_length(R)=n. non-trivial = the history contains a checked response with instance id != 0 or requester != 0x34 or responder != 0x23 (what the repository's tests do not pin); distinct by hash".into()
    }
    fn assumptions(&self) -> Vec<String> {
        vec![
            "only requests whose SMBus source address and source endpoint ID name the same 7-bit requester are checked (as the property states)".into(),
            "D/reserved bits and TO/tag of the response are not demanded; that a request is answered at all is left to C13-C15".into(),
        ]
    }
    fn strategy(&self, _tier: Tier) -> BoxedStrategy<Case> {
        gen::responder_case([3, 3, 3, 3, 3, 3, 3], 1, 1, 12).prop_map(|(cfg, ops)| Case { cfg, ops }).boxed()
    }
    fn budget(&self, tier: Tier) -> u64 {
        match tier {
            Tier::Quick => 200_000,
            Tier::Thorough => 5_000_000,
        }
    }
    fn required_labels(&self) -> Vec<&'static str> {
        vec!["frames_checked", "frames_nontrivial"]
    }
    fn enumerate(&self, tier: Tier, shard: usize, nshards: usize, f: &mut dyn FnMut(Case)) {
        use crate::refmodel::build_packet;
        // every command code x a few instance ids / requesters
        {
            let cfg = CtxCfg { addr: 0x23, msg_types: vec![0x7E], vendors: vec![(0, 0x1234, 0xAB)] };
            for cmd in 0..=255u8 {
                if (cmd as usize) % nshards != shard {
                    continue;
                }
                for (s, iid) in [(0x34u8, 0u8), (0x34, 1), (0x11, 31), (0x90, 0), (0x7F, 17)] {
                    let data: Vec<u8> = match crate::refmodel::req_fixed_len(cmd) {
                        Some(l) => (0..l).map(|i| if cmd == 0x01 && i == 1 { 0x42 } else { 0 }).collect(),
                        None => vec![],
                    };
                    let mut body = vec![0x80 | iid, cmd];
                    body.extend_from_slice(&data);
                    let bytes = build_packet(0x23, s, 0x23, s, 0xC8, 0x00, &body);
                    f(Case { cfg: cfg.clone(), ops: vec![Op::Process { bytes, cap: 64, fill: 0x66 }] });
                }
            }
        }
        let addrs: Vec<u8> = if tier == Tier::Thorough { vec![0x00, 0x23, 0x40, 0x7F] } else { vec![0x23] };
        for &a in &addrs {
            let cfg = CtxCfg { addr: a, msg_types: vec![0x7E, 0x05], vendors: vec![(0, 0x1234, 0xAB), (1, 0x00C0FFEE, 9)] };
            for s in 0..=255u8 {
                if (s as usize) % nshards != shard {
                    continue;
                }
                for iid in 0..32u8 {
                    let reqs: [(u8, Vec<u8>); 9] = [
                        (0x01, vec![0x00, 0x42]),
                        (0x01, vec![0x03, 0x43]),
                        (0x02, vec![]),
                        (0x03, vec![]),
                        (0x04, vec![0xFF]),
                        (0x05, vec![]),
                        (0x06, vec![0x01]),
                        (0x06, vec![0x09]),
                        (0x0B, vec![]),
                    ];
                    for (cmd, data) in reqs.iter() {
                        let mut body = vec![0x80 | iid, *cmd];
                        body.extend_from_slice(data);
                        let bytes = build_packet(a, s, a, s, 0xC8, 0x00, &body);
                        f(Case { cfg: cfg.clone(), ops: vec![Op::Process { bytes, cap: 64, fill: 0x77 }] });
                    }
                }
            }
        }
    }
    fn enumerated_desc(&self, tier: Tier) -> Option<String> {
        Some(format!("every requester 0..255 x every instance id 0..31 x 9 requests (Set EID Set / SetDiscoveredFlag, Get EID, UUID, version, message types, vendor selector valid / out of range, an unsupported command) on {} responder address(es); every command code 0..255 x 5 (requester, instance id) pairs", if tier == Tier::Thorough { 4 } else { 1 }))
    }
    fn run(&self, case: &Case) -> CaseResult {
        let mut r = CaseResult::default();
        let t = run_model(&case.cfg, &case.ops);
        if t.stats.frames_checked > 0 {
            r.label("frames_checked");
        }
        if t.stats.frames_nontrivial > 0 {
            r.label("frames_nontrivial");
            r.nontrivial = true;
        }
        for rep in t.reports.into_iter().filter(|x| x.prop == "C12") {
            r.fail(rep.sig, rep.detail);
        }
        r
    }
}
