//! C17 — the length probe is a function of the first three bytes only.

use crate::calls::*;
use crate::engine::*;
use crate::gen;
use crate::sut::{self, CtxStore, Len};
use proptest::prelude::*;
use serde::{Deserialize, Serialize};

#[derive(Clone, Debug, Serialize, Deserialize, PartialEq, Eq, Hash)]
pub enum Case {
    /// exactly three bytes, default context (the enumerated domain)
    Prefix { b0: u8, b1: u8, b2: u8 },
    /// three bytes followed by an arbitrary tail, on a random context after a history
    Tail {
        b0: u8,
        b1: u8,
        b2: u8,
        #[serde(with = "hexv")]
        tail: Vec<u8>,
        cfg: CtxCfg,
        hist: Vec<Op>,
    },
    /// exactly four bytes, default context (enumerated sub-domain: does the fourth byte matter?)
    Quad { b0: u8, b1: u8, b2: u8, b3: u8 },
    /// the same input probed `n` times in a row on one fresh context
    Repeat {
        b0: u8,
        b1: u8,
        b2: u8,
        #[serde(with = "hexv")]
        tail: Vec<u8>,
        n: u32,
    },
    /// fewer than three bytes
    Short {
        #[serde(with = "hexv")]
        bytes: Vec<u8>,
        cfg: CtxCfg,
    },
}

pub struct C17;

fn want(b1: u8, b2: u8) -> Result<usize, ()> {
    if b1 == 0x0F {
        Ok(b2 as usize + 4)
    } else {
        Err(())
    }
}

fn check(r: &mut CaseResult, got: &Len, b1: u8, b2: u8, what: &str) {
    match (want(b1, b2), got) {
        (Ok(n), Len::Ok(m)) if n == *m => {}
        (Err(()), Len::Err { ty: 0xFF, .. }) => {}
        (Ok(n), g) => r.fail("C17:wrong_length".to_string(), format!("{}: command code 0x0F and byte count {:#04x} must give Ok({}), got {:?}", what, b2, n, g)),
        (Err(()), Len::Ok(m)) => r.fail("C17:accepted_non_mctp".to_string(), format!("{}: command code {:#04x} is not 0x0F but the probe returned Ok({})", what, b1, m)),
        (Err(()), Len::Err { ty, err }) => r.fail("C17:wrong_error_type".to_string(), format!("{}: error must carry message type Invalid, got type {:#04x} ({:?})", what, ty, err)),
        (Err(()), Len::Panic(m)) => r.fail(format!("C17:panic:{}", sut::panic_kind(m)), format!("{}: panicked: {}", what, m)),
    }
}

impl Prop for C17 {
    type Case = Case;
    fn id(&self) -> &'static str {
        "C17"
    }
    fn rule(&self) -> String {
        "enumerated: all 2^24 three-byte prefixes on a default context (both tiers). generated: random prefixes (b1 = 0x0F half of the time) with random continuations of 0-600 bytes on random contexts after random histories, compared with the prefix alone; complete reference-encoded frames whose SMBus command code is replaced (PEC repaired); complete frames arriving shifted (1-3 leading bytes stripped, 1-2 bytes in front); enumerated four-byte inputs; the same input probed 2-1100 times in a row on one context (enumerated: 16 headers x 600 probes, two headers x 66 000 probes); inputs of length 0-2. oracle: b1 = 0x0F => Ok(b2 + 4), else Err with message type Invalid; equal results for equal prefixes regardless of tail and context; length < 3 => Err (no panic, no Ok). non-trivial = b1 = 0x0F (the accepting branch) or a non-empty tail / short input; enumerated cases are distinct by construction, generated ones by hash".into()
    }
    fn assumptions(&self) -> Vec<String> {
        vec!["the error's DecodeError payload is not demanded, only the message type Invalid".into()]
    }
    fn strategy(&self, _tier: Tier) -> BoxedStrategy<Case> {
        prop_oneof![
            8 => (any::<u8>(), prop_oneof![Just(0x0Fu8), any::<u8>()], any::<u8>(), prop_oneof![3 => gen::bytes_upto(40), 1 => gen::bytes_upto(600)], gen::ctx_cfg(), prop_oneof![2 => Just(Vec::new()).boxed(), 1 => gen::prior_history(3)])
                .prop_map(|(b0, b1, b2, tail, cfg, hist)| Case::Tail { b0, b1, b2, tail, cfg, hist }),
            2 => (gen::ref_valid_packet(), any::<u8>(), gen::ctx_cfg(), prop_oneof![2 => Just(Vec::new()).boxed(), 1 => gen::prior_history(3)]).prop_map(|(mut p, b1, cfg, hist)| {
                // an otherwise complete, valid frame (correct PEC) with a foreign SMBus command code
                p[1] = if b1 == 0x0F { 0x0E } else { b1 };
                crate::refmodel::fix_pec(&mut p);
                Case::Tail { b0: p[0], b1: p[1], b2: p[2], tail: p[3..].to_vec(), cfg, hist }
            }),
            2 => (gen::ref_valid_packet(), 0u8..6, any::<u8>(), any::<u8>(), gen::ctx_cfg()).prop_map(|(p, how, x, y, cfg)| {
                // a complete valid frame that arrives shifted: leading bytes stripped
                // (an I2C target controller that swallows the address byte) or extra bytes in front
                let q: Vec<u8> = match how {
                    0 => p[1..].to_vec(),
                    1 => p[2..].to_vec(),
                    2 => p[3..].to_vec(),
                    3 => { let mut v = vec![x]; v.extend_from_slice(&p); v }
                    4 => { let mut v = vec![x, y]; v.extend_from_slice(&p); v }
                    _ => { let mut v = p.clone(); v[1] = x; v[0] = 0x0F; v }
                };
                Case::Tail { b0: q[0], b1: q[1], b2: q[2], tail: q[3..].to_vec(), cfg, hist: Vec::new() }
            }),
            1 => (proptest::collection::vec(prop_oneof![Just(0x0Fu8), any::<u8>()], 0..=2), gen::ctx_cfg()).prop_map(|(bytes, cfg)| Case::Short { bytes, cfg }),
            1 => (any::<u8>(), prop_oneof![4 => Just(0x0Fu8), 1 => any::<u8>()], prop_oneof![2 => any::<u8>(), 1 => Just(0xFFu8), 1 => Just(0x00u8)], gen::bytes_upto(12), prop_oneof![6 => 2u32..=40, 3 => 250u32..=530, 1 => 1000u32..=1100])
                .prop_map(|(b0, b1, b2, tail, n)| Case::Repeat { b0, b1, b2, tail, n }),
        ]
        .boxed()
    }
    fn budget(&self, tier: Tier) -> u64 {
        match tier {
            Tier::Quick => 400_000,
            Tier::Thorough => 8_000_000,
        }
    }
    fn required_labels(&self) -> Vec<&'static str> {
        vec!["prefix_0f", "prefix_other", "quad", "tail", "short0", "short1", "short2", "repeated_probe", "repeated_probe_256_or_more"]
    }
    fn enumerate(&self, tier: Tier, shard: usize, nshards: usize, f: &mut dyn FnMut(Case)) {
        for b0 in 0u32..256 {
            if (b0 as usize) % nshards != shard {
                continue;
            }
            for b1 in 0u32..256 {
                for b2 in 0u32..256 {
                    f(Case::Prefix { b0: b0 as u8, b1: b1 as u8, b2: b2 as u8 });
                }
            }
        }
        // the same header probed over and over on one context (both tiers): 600 times for
        // 16 headers, 66 000 times for two
        if shard == 0 {
            for b1 in [0x0Fu8, 0x0E] {
                for b2 in [0x00u8, 0x08, 0x7F, 0x80, 0xFB, 0xFC, 0xFE, 0xFF] {
                    f(Case::Repeat { b0: 0x46, b1, b2, tail: vec![0x69, 0x01], n: 600 });
                }
            }
            f(Case::Repeat { b0: 0x46, b1: 0x0F, b2: 0x08, tail: vec![], n: 66_000 });
            f(Case::Repeat { b0: 0x46, b1: 0x0F, b2: 0xFF, tail: vec![0x69], n: 66_000 });
        }
        // four-byte inputs: quick = 6 leading bytes x all b1, b2 x 16 structural fourth bytes;
        // thorough = every leading byte x all b1, b2 x the 16 structural fourth bytes and,
        // for the 6 leading bytes, every fourth byte
        const B0: [u8; 6] = [0x0F, 0x0E, 0x1E, 0x1F, 0x00, 0x46];
        const B3: [u8; 16] = [0x01, 0x00, 0x0F, 0xFF, 0x02, 0x11, 0x81, 0x21, 0x7E, 0x7F, 0x05, 0x06, 0xC8, 0x80, 0x0E, 0x10];
        for b0 in 0u32..256 {
            if (b0 as usize) % nshards != shard {
                continue;
            }
            let special = B0.contains(&(b0 as u8));
            if !special && tier == Tier::Quick {
                continue;
            }
            for b1 in 0u32..256 {
                for b2 in 0u32..256 {
                    if special && tier == Tier::Thorough {
                        for b3 in 0u32..256 {
                            f(Case::Quad { b0: b0 as u8, b1: b1 as u8, b2: b2 as u8, b3: b3 as u8 });
                        }
                    } else {
                        for b3 in B3 {
                            f(Case::Quad { b0: b0 as u8, b1: b1 as u8, b2: b2 as u8, b3 });
                        }
                    }
                }
            }
        }
    }
    fn enumerated_desc(&self, tier: Tier) -> Option<String> {
        Some(match tier {
            Tier::Quick => "all 2^24 = 16777216 three-byte prefixes (complete for inputs of exactly three bytes); 6291456 four-byte inputs (6 leading bytes x all b1, b2 x 16 structural fourth bytes)".into(),
            Tier::Thorough => "all 2^24 = 16777216 three-byte prefixes (complete for inputs of exactly three bytes); four-byte inputs: every leading byte x all b1, b2 x 16 structural fourth bytes, and 6 leading bytes x all b1, b2, b3 (about 3.6e8)".into(),
        })
    }
    fn run(&self, case: &Case) -> CaseResult {
        thread_local! {
            static DEFAULT: CtxStore = CtxStore::new(&CtxCfg::default_test());
        }
        let mut r = CaseResult::default();
        match case {
            Case::Prefix { b0, b1, b2 } => {
                r.nontrivial = *b1 == 0x0F;
                r.label(if *b1 == 0x0F { "prefix_0f" } else { "prefix_other" });
                let got = DEFAULT.with(|s| sut::get_length(&s.ctx(), &[*b0, *b1, *b2]));
                check(&mut r, &got, *b1, *b2, "3-byte input");
            }
            Case::Quad { b0, b1, b2, b3 } => {
                r.nontrivial = true;
                r.label("quad");
                let got = DEFAULT.with(|s| sut::get_length(&s.ctx(), &[*b0, *b1, *b2, *b3]));
                check(&mut r, &got, *b1, *b2, "4-byte input");
            }
            Case::Tail { b0, b1, b2, tail, cfg, hist } => {
                r.nontrivial = !tail.is_empty();
                r.label("tail");
                let alone = DEFAULT.with(|s| sut::get_length(&s.ctx(), &[*b0, *b1, *b2]));
                let store = CtxStore::new(cfg);
                let mut ctx = store.ctx();
                for op in hist {
                    let _ = sut::apply_op(&mut ctx, op);
                }
                let mut full = vec![*b0, *b1, *b2];
                full.extend_from_slice(tail);
                let with_tail = sut::get_length(&ctx, &full);
                check(&mut r, &with_tail, *b1, *b2, &format!("prefix {:02x}{:02x}{:02x} + {} more bytes", b0, b1, b2, tail.len()));
                let same = match (&alone, &with_tail) {
                    (Len::Ok(a), Len::Ok(b)) => a == b,
                    (Len::Err { ty: a, .. }, Len::Err { ty: b, .. }) => a == b,
                    _ => false,
                };
                if !same && r.failures.is_empty() {
                    r.fail("C17:depends_on_tail_or_context".to_string(), format!("prefix {:02x}{:02x}{:02x} alone gives {:?}; followed by {} bytes on context {:?} it gives {:?}", b0, b1, b2, alone, tail.len(), cfg, with_tail));
                }
            }
            Case::Repeat { b0, b1, b2, tail, n } => {
                r.nontrivial = true;
                r.label("repeated_probe");
                if *n >= 256 {
                    r.label("repeated_probe_256_or_more");
                }
                let store = CtxStore::new(&CtxCfg::default_test());
                let ctx = store.ctx();
                let mut full = vec![*b0, *b1, *b2];
                full.extend_from_slice(tail);
                for i in 0..(*n).min(100_000) {
                    let got = sut::get_length(&ctx, &full);
                    check(&mut r, &got, *b1, *b2, &format!("probe number {} of the same {}-byte input {} on one context", i + 1, full.len(), hex(&full)));
                    if !r.failures.is_empty() {
                        break;
                    }
                }
            }
            Case::Short { bytes, cfg } => {
                r.nontrivial = true;
                r.label(match bytes.len() {
                    0 => "short0",
                    1 => "short1",
                    _ => "short2",
                });
                let store = CtxStore::new(cfg);
                let ctx = store.ctx();
                match sut::get_length(&ctx, bytes) {
                    Len::Err { .. } => {}
                    Len::Ok(n) => r.fail("C17:short_accepted".to_string(), format!("{}-byte input {} gave Ok({})", bytes.len(), hex(bytes), n)),
                    Len::Panic(m) => r.fail(format!("C17:short_panic:{}", sut::panic_kind(&m)), format!("{}-byte input {} panicked: {}", bytes.len(), hex(bytes), m)),
                }
            }
        }
        r
    }
}
