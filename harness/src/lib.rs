//! Verification harness for libmctp: generators, independent reference model,
//! panic-trapping SUT wrappers, the sharded proptest engine and one module per
//! property (C01..C19).  See /verif/DESIGN.md.

pub mod calls;
pub mod campaign;
pub mod crc;
pub mod engine;
pub mod fuzz;
pub mod gen;
pub mod known;
pub mod props;
pub mod refmodel;
pub mod sut;
