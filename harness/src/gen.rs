//! Shared proptest strategies.  Everything random comes from here (and so from
//! the engine's seeded TestRng); nothing below reads a clock or another RNG.

use crate::calls::*;
use crate::refmodel::{self, RefEnc};
use proptest::collection::vec;
use proptest::prelude::*;

pub fn any_u8() -> impl Strategy<Value = u8> {
    prop_oneof![
        6 => any::<u8>(),
        1 => Just(0x00u8),
        1 => Just(0xFFu8),
        1 => Just(0x7Fu8),
        1 => Just(0x80u8),
    ]
}

/// 7-bit SMBus address.
pub fn addr7() -> impl Strategy<Value = u8> {
    prop_oneof![
        6 => 0u8..=0x7F,
        1 => Just(0x00u8),
        1 => Just(0x7Fu8),
        1 => 0x40u8..=0x7F,
    ]
}

/// Destination value: weighted to 7-bit but all 256 values occur.
pub fn dest_any() -> impl Strategy<Value = u8> {
    prop_oneof![
        6 => 0u8..=0x7F,
        2 => any::<u8>(),
        1 => Just(0x7Fu8),
    ]
}

pub fn uuid() -> impl Strategy<Value = [u8; 16]> {
    prop_oneof![
        4 => proptest::array::uniform16(any::<u8>()),
        1 => Just([0u8; 16]),
        1 => Just([0xFFu8; 16]),
        1 => Just([0,1,2,3,4,5,6,7,8,9,10,11,12,13,14,15u8]),
    ]
}

/// Bytes that coincide with something structural: frame constants, message
/// types, command codes, flag bytes.
const STRUCTURAL: [u8; 16] = [0x00, 0x0F, 0x01, 0xFF, 0x7E, 0x7F, 0x05, 0x06, 0xC8, 0x80, 0x02, 0x0E, 0x10, 0x0A, 0x1F, 0x81];

/// Give a random byte vector *content* that coincides with something
/// structural (the length is never changed): a constant fill, bytes from the
/// frame's own constants, a payload that ends with the CRC-8 of what precedes
/// it (so the packet's last payload byte is a valid PEC of a prefix), a payload
/// whose CRC-8 is zero, an ascending run, or a complete valid packet embedded at
/// the start.  Ten cases in sixteen stay uniformly random.
pub fn shape_content(mut v: Vec<u8>, mode: u8, aux: u8) -> Vec<u8> {
    let n = v.len();
    match mode & 15 {
        10 => v.iter_mut().for_each(|b| *b = aux),
        11 => v.iter_mut().for_each(|b| *b = STRUCTURAL[(*b & 15) as usize]),
        12 => {
            if n >= 2 {
                v[n - 1] = crate::crc::crc8(&v[..n - 1]);
            }
        }
        13 => v.iter_mut().enumerate().for_each(|(i, b)| *b = aux.wrapping_add(i as u8)),
        14 => {
            if n >= 10 && n <= 259 {
                // the payload is itself a complete, well-formed frame of its own
                // length (a relayed / tunnelled packet): framing bytes, header
                // version, SOM/EOM and a correct PEC, the rest stays random
                v[0] &= 0xFE;
                v[1] = 0x0F;
                v[2] = (n - 4) as u8;
                v[3] |= 1;
                v[4] = 0x01;
                v[7] |= 0xC0;
                if aux & 1 == 0 {
                    v[8] = [0x00, 0x7E, 0x7F, 0x05][(aux >> 1 & 3) as usize];
                }
                v[n - 1] = crate::crc::crc8(&v[..n - 1]);
            } else {
                let inner = refmodel::build_control_request(aux & 0x7F, 0x10, aux, 0x10, 0, 0x02, &[]);
                for (d, s) in v.iter_mut().zip(inner.iter()) {
                    *d = *s;
                }
            }
        }
        15 => {
            // all zero but for one structural byte somewhere
            v.iter_mut().for_each(|b| *b = 0);
            if n > 0 {
                v[(aux as usize * n) >> 8] = STRUCTURAL[(aux & 15) as usize];
            }
        }
        _ => {}
    }
    v
}

fn shaped(s: BoxedStrategy<Vec<u8>>) -> BoxedStrategy<Vec<u8>> {
    (s, any::<u8>(), any::<u8>()).prop_map(|(v, mode, aux)| shape_content(v, mode, aux)).boxed()
}

/// Byte vectors with lengths weighted to small values and to `max`.
pub fn bytes_upto(max: usize) -> BoxedStrategy<Vec<u8>> {
    let small = max.min(4);
    let mid = max.min(40);
    let hi_lo = max.saturating_sub(3);
    shaped(
        prop_oneof![
            3 => vec(any::<u8>(), 0..=small),
            3 => vec(any::<u8>(), 0..=mid),
            2 => vec(any::<u8>(), 0..=max),
            2 => vec(any::<u8>(), hi_lo..=max),
        ]
        .boxed(),
    )
}

/// Byte vectors of length in [lo, hi].
pub fn bytes_between(lo: usize, hi: usize) -> BoxedStrategy<Vec<u8>> {
    shaped(vec(any::<u8>(), lo..=hi).boxed())
}

pub fn half() -> impl Strategy<Value = Half> {
    prop_oneof![Just(Half::Req), Just(Half::Resp)]
}

pub fn opt_header(max: usize) -> BoxedStrategy<Option<Vec<u8>>> {
    prop_oneof![
        2 => Just(None),
        1 => Just(Some(Vec::new())),
        4 => vec(any::<u8>(), 1..=max).prop_map(Some),
    ]
    .boxed()
}

pub fn set_eid_value(include_invalid: bool) -> BoxedStrategy<u8> {
    if include_invalid {
        prop_oneof![
            8 => 1u8..=0xFE,
            1 => Just(0x01u8),
            1 => Just(0xFEu8),
            1 => Just(0x00u8),
            1 => Just(0xFFu8),
        ]
        .boxed()
    } else {
        prop_oneof![8 => 1u8..=0xFE, 1 => Just(0x01u8), 1 => Just(0xFEu8)].boxed()
    }
}

pub fn pci_or_iana_data() -> impl Strategy<Value = u32> {
    prop_oneof![
        4 => any::<u32>(),
        2 => 0u32..=0xFFFF,
        1 => Just(0x1122_3344u32),
        1 => Just(0x0001_0203u32),
        1 => Just(0xFFFF_FFFFu32),
        1 => Just(0x8000_0001u32),
    ]
}

/// A *plausible* routing table: entries built with the typed constructor's
/// value ranges (entry type 0-3, reserved bits clear) whose neighbours are
/// related the way real tables are - same bridge address, contiguous /
/// overlapping / touching EID ranges, equal types - rather than four
/// independent bytes.
pub fn routing_table() -> BoxedStrategy<Vec<[u8; 4]>> {
    (
        (0u8..4, prop_oneof![3 => 1u8..=16, 1 => any::<u8>()], any::<u8>(), any::<u8>()),
        vec((0u8..8, 0u8..6, prop_oneof![3 => 1u8..=16, 1 => any::<u8>()], 0u8..4, any::<u8>()), 0..=6),
    )
        .prop_map(|((t0, size0, first0, phys0), steps)| {
            let mut out: Vec<[u8; 4]> = vec![[t0, size0, first0, phys0]];
            for (tsel, rel, size, psel, r) in steps {
                let p = *out.last().unwrap();
                let ty = if tsel < 6 { p[0] } else { r & 3 };
                let first = match rel {
                    0 | 1 => p[2].wrapping_add(p[1]),            // continues the previous range
                    2 => p[2].wrapping_add(p[1]).wrapping_add(1), // one EID gap
                    3 => p[2],                                    // same start
                    4 => p[2].wrapping_sub(size),                 // ends where the previous begins
                    _ => r,
                };
                let phys = if psel < 3 { p[3] } else { r.rotate_left(3) };
                out.push([ty, size, first, phys]);
            }
            out
        })
        .boxed()
}

/// The 17 control request encoders.
pub fn req_call(include_invalid: bool) -> BoxedStrategy<EncCall> {
    use EncCall::*;
    let max_entries = if include_invalid { 10usize } else { 7 };
    prop_oneof![
        2 => (0u8..4, set_eid_value(include_invalid)).prop_map(|(op, eid)| ReqSetEndpointId { op, eid }),
        1 => Just(ReqGetEndpointId),
        1 => Just(ReqGetEndpointUuid),
        1 => (0u8..5).prop_map(|query| ReqGetVersion { query }),
        1 => Just(ReqGetMsgTypes),
        1 => any_u8().prop_map(|sel| ReqGetVendorSupport { sel }),
        1 => any_u8().prop_map(|eid| ReqResolveEid { eid }),
        2 => (0u8..3, any_u8(), any_u8()).prop_map(|(op, pool, start)| ReqAllocateEids { op, pool, start }),
        3 => prop_oneof![
                3 => vec(proptest::array::uniform4(any::<u8>()), 0..=7),
                1 => vec(proptest::array::uniform4(any::<u8>()), 7..=7),
                1 => vec(proptest::array::uniform4(any::<u8>()), 0..=max_entries),
                3 => routing_table(),
            ].prop_map(|mut entries: Vec<[u8; 4]>| {
                // now and then two neighbouring entries are identical
                if entries.len() >= 2 && entries[0][0] & 3 == 0 {
                    let i = (entries[0][1] as usize) % (entries.len() - 1);
                    entries[i + 1] = entries[i];
                }
                ReqRoutingUpdate { entries }
            }),
        1 => any_u8().prop_map(|handle| ReqGetRoutingTable { handle }),
        1 => Just(ReqPrepareDiscovery),
        1 => Just(ReqEndpointDiscovery),
        1 => Just(ReqDiscoveryNotify),
        1 => Just(ReqGetNetworkId),
        2 => (any_u8(), 0u8..6).prop_map(|(eid, mt)| ReqQueryHop { eid, mt }),
        2 => (uuid(), any_u8()).prop_map(|(uuid, handle)| ReqResolveUuid { uuid, handle }),
        1 => Just(ReqQueryRateLimit),
    ]
    .boxed()
}

pub fn vendor_format(include_invalid: bool) -> BoxedStrategy<u8> {
    if include_invalid {
        prop_oneof![4 => Just(0u8), 4 => Just(1u8), 1 => Just(2u8), 1 => Just(0xFFu8), 1 => any::<u8>()].boxed()
    } else {
        prop_oneof![Just(0u8), Just(1u8)].boxed()
    }
}

/// vendor_defined(): `over` allows message bodies beyond the frame limit.
pub fn vendor_call(include_invalid: bool, over: bool) -> BoxedStrategy<EncCall> {
    // PCI: body = 2 + msg <= 249 ; IANA: 4 + msg <= 249
    let max = if over { 300 } else { 245 };
    (vendor_format(include_invalid), pci_or_iana_data(), special_u16(), bytes_upto(max))
        .prop_map(move |(format, data, numeric, mut msg)| {
            // relation between two arguments: one message in eight begins with
            // the very bytes of the vendor ID header
            if numeric & 7 == 0 {
                let mut m = if format == 0 { vec![(data >> 8) as u8, data as u8] } else { data.to_be_bytes().to_vec() };
                m.extend_from_slice(&msg);
                msg = m;
            }
            if !over {
                let lim = if format == 0 { 247 } else { 245 };
                msg.truncate(lim);
            }
            EncCall::ReqVendor { format, data, numeric, msg }
        })
        .boxed()
}

/// Body lengths around the frame limit (for `over`), else within it.
fn hdr_data(over: bool) -> BoxedStrategy<(Option<Vec<u8>>, Vec<u8>)> {
    let max = if over { 300usize } else { refmodel::MAX_BODY };
    (opt_header(8), bytes_upto(max))
        .prop_map(move |(h, mut d)| {
            let hl = h.as_ref().map(|x| x.len()).unwrap_or(0);
            if !over && hl + d.len() > refmodel::MAX_BODY {
                d.truncate(refmodel::MAX_BODY - hl);
            }
            (h, d)
        })
        .boxed()
}

pub fn trait_call(over: bool, with_control: bool) -> BoxedStrategy<EncCall> {
    use EncCall::*;
    let mut arms: Vec<(u32, BoxedStrategy<EncCall>)> = vec![
        (1, (half(), hdr_data(over)).prop_map(|(half, (header, data))| TraitPci { half, header, data }).boxed()),
        (1, (half(), hdr_data(over)).prop_map(|(half, (header, data))| TraitIana { half, header, data }).boxed()),
        (2, (half(), any::<bool>(), hdr_data(over)).prop_map(|(half, secured, (header, data))| TraitSpdm { half, secured, header, data }).boxed()),
    ];
    if with_control {
        arms.push((1, (half(), hdr_data(over)).prop_map(|(half, (header, data))| TraitControl { half, header, data }).boxed()));
    }
    proptest::strategy::Union::new_weighted(arms).boxed()
}

pub fn cc_any() -> impl Strategy<Value = u8> {
    prop_oneof![3 => Just(0u8), 2 => 1u8..=5]
}

pub fn msg_type_list(include_invalid: bool) -> BoxedStrategy<Vec<u8>> {
    let hi = if include_invalid { 64usize } else { 30 };
    (
        prop_oneof![
            2 => Just(Vec::new()),
            2 => vec(any::<u8>(), 1..=1),
            4 => vec(any::<u8>(), 0..=30),
            2 => vec(any::<u8>(), 29..=30),
            1 => vec(any::<u8>(), 30..=hi),
        ],
        0u8..12,
        any::<u8>(),
    )
        .prop_map(|(mut v, mode, aux)| {
            // configuration *values*: sorted / reversed lists, duplicates, the
            // supported type codes themselves, 0x00 somewhere
            let n = v.len();
            match mode {
                0 => v.sort(),
                1 => {
                    v.sort();
                    v.reverse();
                }
                2 => {
                    if n >= 2 {
                        let i = (aux as usize * (n - 1)) >> 8;
                        v[i + 1] = v[i];
                    }
                }
                3 => v.iter_mut().for_each(|b| *b = [0x00, 0x05, 0x06, 0x7E, 0x7F, 0x01][(*b % 6) as usize]),
                4 => v.iter_mut().for_each(|b| *b = aux),
                5 => {
                    if n > 0 {
                        v[(aux as usize * n) >> 8] = 0x00;
                    }
                }
                _ => {}
            }
            v
        })
        .boxed()
}

pub fn resp_call(include_invalid: bool) -> BoxedStrategy<EncCall> {
    use EncCall::*;
    prop_oneof![
        2 => (cc_any(), 0u8..2, 0u8..3).prop_map(|(cc, assign, alloc)| RespSetEndpointId { cc, assign, alloc }),
        2 => (cc_any(), 0u8..2, 0u8..4, any::<bool>()).prop_map(|(cc, etype, idtype, fairness)| RespGetEndpointId { cc, etype, idtype, fairness }),
        2 => (cc_any(), uuid()).prop_map(|(cc, uuid)| RespUuid { cc, uuid }),
        1 => cc_any().prop_map(|cc| RespVersion { cc }),
        2 => (cc_any(), msg_type_list(include_invalid)).prop_map(|(cc, types)| RespMsgTypes { cc, types }),
        2 => (cc_any(), any_u8(), vec(any::<u8>(), 0..=7)).prop_map(|(cc, selector, vendor_id)| RespVendorSupport { cc, selector, vendor_id }),
    ]
    .boxed()
}

/// Every encoder.  `include_invalid`: documented-invalid arguments occur;
/// `over`: bodies beyond the frame limit occur; `with_control`: the generic
/// trait-level control writer is included.
pub fn enc_call(include_invalid: bool, over: bool, with_control: bool) -> BoxedStrategy<EncCall> {
    prop_oneof![
        17 => req_call(include_invalid),
        4 => vendor_call(include_invalid, over),
        5 => trait_call(over, with_control),
        8 => resp_call(include_invalid),
    ]
    .boxed()
}

/// Prior history of a sending context: processed valid packets (requests,
/// Success responses, vendor / SPDM messages), decode-only calls, other
/// encodes and UUID updates.
pub fn sender_history() -> BoxedStrategy<Vec<Op>> {
    // a complete exchange: the context encodes a request and then processes the
    // matching Success response (same command, instance id 0 as the library's
    // requests carry) - what a requester's context sees all the time
    let exchange = (req_call(false), addr7(), addr7(), any::<u8>(), prop_oneof![4 => Just(0u8), 1 => 0u8..32]).prop_map(|(call, dest, src, fill, iid)| {
        let cmd = match refmodel::ref_encode(&call, 0) {
            RefEnc::Packet(p) => p.body[1],
            _ => 0x02,
        };
        let dl = match cmd {
            0x01 => 3,
            0x02 => 4,
            0x03 => 16,
            0x04 => 5,
            0x08 => 4,
            0x09 => 1,
            _ => 2,
        };
        let data: Vec<u8> = (0..dl).map(|i| fill.wrapping_add(i as u8)).collect();
        let resp = refmodel::build_control_response(src, dest, src, dest, iid, cmd, 0, &data);
        vec![Op::Encode { call, dest }, Op::Process { bytes: resp, cap: 64, fill }]
    });
    let single = prop_oneof![
        5 => (ref_valid_packet(), 64u16..=128, any::<u8>()).prop_map(|(bytes, cap, fill)| Op::Process { bytes, cap, fill }),
        2 => (actionable_request(), 64u16..=128, any::<u8>()).prop_map(|(bytes, cap, fill)| Op::Process { bytes, cap, fill }),
        2 => (ctrl_request(0x23, 1, [2, 2, 2, 2, 2, 2, 2]), 64u16..=128, any::<u8>()).prop_map(|(bytes, cap, fill)| Op::Process { bytes, cap, fill }),
        1 => ref_valid_packet().prop_map(|bytes| Op::Decode { bytes }),
        2 => (plausible_response(), 64u16..=128, any::<u8>()).prop_map(|(bytes, cap, fill)| Op::Process { bytes, cap, fill }),
        1 => plausible_response().prop_map(|bytes| Op::Decode { bytes }),
        2 => (prop_oneof![req_call(false), resp_call(false)], addr7()).prop_map(|(call, dest)| Op::Encode { call, dest }),
        1 => uuid().prop_map(Op::SetUuid),
    ]
    .prop_map(|op| vec![op]);
    let element = prop_oneof![3 => single, 1 => exchange];
    prop_oneof![
        2 => Just(Vec::new()).boxed(),
        1 => vec(element, 1..=3).prop_map(|v| v.into_iter().flatten().collect::<Vec<Op>>()).boxed(),
    ]
    .boxed()
}

pub fn enc_env(dest: BoxedStrategy<u8>) -> BoxedStrategy<EncEnv> {
    (addr7(), dest, any_u8(), any_u8(), prop_oneof![3 => Just(false), 1 => Just(true)], sender_history())
        .prop_map(|(addr, dest, eid_req, eid_resp, eid_via_process, mut hist)| {
            // relation between the history and the call under test: one case in
            // four, the control responses the sender processed earlier came from
            // the very peer (SMBus address and EID) the next packet goes to
            if eid_req & 3 == 1 {
                for op in hist.iter_mut() {
                    if let Op::Process { bytes, .. } = op {
                        if bytes.len() > 11 && bytes[8] == 0x00 && bytes[9] & 0x80 == 0 {
                            bytes[3] = (dest << 1) | 1;
                            bytes[6] = dest;
                            refmodel::fix_pec(bytes);
                        }
                    }
                }
            }
            (addr, dest, eid_req, eid_resp, eid_via_process, hist)
        })
        .prop_map(|(addr, dest, eid_req, eid_resp, eid_via_process, hist)| EncEnv {
            addr,
            dest,
            eid_req: if eid_via_process { eid_resp } else { eid_req },
            eid_resp,
            eid_via_process,
            hist,
        })
        .boxed()
}

/// 16-bit values with the special ones (zero, all ones, one zero byte) weighted up.
pub fn special_u16() -> impl Strategy<Value = u16> {
    prop_oneof![
        8 => any::<u16>(),
        2 => Just(0x0000u16),
        1 => Just(0xFFFFu16),
        1 => 1u16..=0xFF,
        1 => (1u16..=0xFF).prop_map(|x| x << 8),
        1 => Just(0x0001u16),
    ]
}

pub fn vendor_set() -> impl Strategy<Value = (u8, u32, u16)> {
    prop_oneof![
        4 => (Just(0u8), 0u32..=0xFFFF, special_u16()),
        1 => (Just(0u8), special_u16().prop_map(|x| x as u32), special_u16()),
        4 => (Just(1u8), pci_or_iana_data(), special_u16()),
        1 => (Just(1u8), prop_oneof![Just(0u32), (0u32..4, 1u32..=0xFF).prop_map(|(k, b)| b << (8 * k)), special_u16().prop_map(|x| x as u32)], special_u16()),
    ]
}

/// Vendor set lists of 1-16 entries; one list in four contains an exact
/// duplicate of one of its entries at another position, and one in eight
/// begins or ends with all-zero sets (a zero-padded static table).
fn vendor_sets() -> BoxedStrategy<Vec<(u8, u32, u16)>> {
    (prop_oneof![2 => vec(vendor_set(), 1..=1), 3 => vec(vendor_set(), 1..=16)], any::<u16>(), any::<u16>(), 0u8..4, 0u8..16)
        .prop_map(|(mut v, a, b, dup, zero)| {
            if dup == 0 && v.len() >= 2 {
                let i = (a as usize * v.len()) >> 16;
                let j = (b as usize * v.len()) >> 16;
                v[j] = v[i];
            }
            let n = v.len();
            match zero {
                0 => v[n - 1] = (0, 0, 0),
                1 => {
                    v[n - 1] = (0, 0, 0);
                    if n >= 3 {
                        v[n - 2] = (0, 0, 0);
                    }
                }
                2 => v[0] = (0, 0, 0),
                3 => v[n - 1] = (1, 0, 0),
                _ => {}
            }
            v
        })
        .boxed()
}

/// A validly configured context: 7-bit address, 0-30 message types, 1-16
/// vendor sets of format 0/1.
pub fn ctx_cfg() -> BoxedStrategy<CtxCfg> {
    (addr7(), msg_type_list(false), vendor_sets()).prop_map(|(addr, msg_types, vendors)| CtxCfg { addr, msg_types, vendors }).boxed()
}

/// As `ctx_cfg_maybe_no_vendor`, but one context in forty has 255 or 256
/// vendor ID sets (the largest lists whose selectors still fit one byte).
pub fn ctx_cfg_extreme() -> BoxedStrategy<CtxCfg> {
    (ctx_cfg_maybe_no_vendor(), 0u8..40, any::<bool>(), vendor_set())
        .prop_map(|(mut c, k, more, v)| {
            if k == 0 {
                let n = if more { 256 } else { 255 };
                c.vendors = (0..n).map(|i| (v.0 ^ (i as u8 & 1), v.1.wrapping_add(i as u32), v.2.wrapping_add(i as u16))).collect();
                for x in c.vendors.iter_mut() {
                    if x.0 == 0 {
                        x.1 &= 0xFFFF;
                    }
                }
            }
            c
        })
        .boxed()
}

/// As `ctx_cfg`, but one context in eight has no vendor ID set at all (an
/// endpoint without vendor-defined message support).
pub fn ctx_cfg_maybe_no_vendor() -> BoxedStrategy<CtxCfg> {
    (ctx_cfg(), 0u8..8)
        .prop_map(|(mut c, k)| {
            if k == 0 {
                c.vendors.clear();
            }
            c
        })
        .boxed()
}

// ---------------------------------------------------------------------------
// Receive-side inputs

#[derive(Clone, Debug)]
struct PktSpec {
    b0: u8,
    b1: u8,
    b2_valid: bool,
    b2: u8,
    b3: u8,
    b4: u8,
    b5: u8,
    b6: u8,
    b7: u8,
    b8: u8,
    ctrl: u8,
    cmd: u8,
    cc: u8,
    data: Vec<u8>,
    len_rel: u8,
    pec_xor: u8,
}

fn type_byte() -> impl Strategy<Value = u8> {
    prop_oneof![
        10 => Just(0x00u8),
        2 => Just(0x05u8),
        2 => Just(0x06u8),
        2 => Just(0x7Eu8),
        2 => Just(0x7Fu8),
        1 => prop_oneof![Just(0x80u8), Just(0x85u8), Just(0x86u8), Just(0xFEu8), Just(0xFFu8)],
        1 => prop_oneof![Just(0x01u8), Just(0x04u8), Just(0x07u8), Just(0x7Du8)],
        1 => any::<u8>(),
    ]
}

fn cmd_byte() -> impl Strategy<Value = u8> {
    prop_oneof![
        12 => 0u8..=0x15,
        4 => 1u8..=8,
        1 => any::<u8>(),
        1 => Just(0xFFu8),
    ]
}

fn cc_byte() -> impl Strategy<Value = u8> {
    prop_oneof![6 => Just(0u8), 3 => 1u8..=5, 1 => 6u8..=255, 1 => Just(6u8)]
}

/// Packets built from the frame grammar with each field drawn from
/// {valid, other values}.
pub fn grammar_packet() -> BoxedStrategy<Vec<u8>> {
    (
        (any::<u8>(), prop_oneof![9 => Just(0x0Fu8), 1 => any::<u8>()], prop_oneof![4 => Just(true), 1 => Just(false)], any::<u8>(), any::<u8>()),
        (prop_oneof![8 => Just(0x01u8), 1 => any::<u8>(), 1 => prop_oneof![Just(0x00u8), Just(0x02u8), Just(0x11u8), Just(0x81u8), Just(0x21u8)]], any::<u8>(), any::<u8>(), prop_oneof![3 => Just(0xC8u8), 1 => Just(0xC0u8), 1 => any::<u8>()]),
        type_byte(),
        (any::<u8>(), cmd_byte(), cc_byte()),
        (bytes_upto(40), 0u8..8, prop_oneof![4 => Just(0u8), 1 => 1u8..=255]),
    )
        .prop_map(|((b0, b1, b2_valid, b2, b3), (b4, b5, b6, b7), b8, (ctrl, cmd, cc), (data, len_rel, pec_xor))| {
            build_from_spec(&PktSpec { b0, b1, b2_valid, b2, b3, b4, b5, b6, b7, b8, ctrl, cmd, cc, data, len_rel, pec_xor })
        })
        .boxed()
}

fn build_from_spec(s: &PktSpec) -> Vec<u8> {
    let mut v = vec![s.b0, s.b1, 0, s.b3, s.b4, s.b5, s.b6, s.b7, s.b8];
    if s.b8 == 0x00 {
        v.push(s.ctrl);
        v.push(s.cmd);
        let rq = s.ctrl & 0x80 != 0;
        if !rq {
            v.push(s.cc);
        }
        // data length relative to the command's fixed length
        let fixed = if rq {
            refmodel::req_fixed_len(s.cmd)
        } else {
            match s.cmd {
                0x01 => Some(3),
                0x02 => Some(3),
                0x03 => Some(16),
                0x04 => Some(5),
                0x08 => Some(4),
                0x09 => Some(1),
                _ => None,
            }
        };
        let want = match (s.len_rel, fixed) {
            (0..=3, Some(l)) => l,
            (4, Some(l)) => l.saturating_sub(1),
            (5, Some(l)) => l + 1,
            (6, _) => 0,
            _ => s.data.len(),
        };
        for i in 0..want {
            v.push(*s.data.get(i).unwrap_or(&(i as u8)));
        }
    } else {
        v.extend_from_slice(&s.data);
    }
    v.push(0);
    let n = v.len();
    v[2] = if s.b2_valid { (n - 4) as u8 } else { s.b2 };
    v[n - 1] = crate::crc::crc8(&v[..n - 1]) ^ s.pec_xor;
    v
}

/// A valid packet produced by the *reference* encoder for a random encoder
/// call (requests, responses, vendor, SPDM), random addresses.
pub fn ref_valid_packet() -> BoxedStrategy<Vec<u8>> {
    (enc_call(false, false, false), addr7(), addr7(), any_u8(), 0u8..32)
        .prop_map(|(call, src, dest, eid, iid)| {
            match refmodel::ref_encode(&call, eid) {
                RefEnc::Packet(p) => {
                    let mut body = p.body.clone();
                    if !p.exact {
                        // non-Success response: give it some trailing data
                        body.extend_from_slice(&[eid, 0, 0]);
                    }
                    if p.type_byte == 0 && !body.is_empty() {
                        body[0] = (body[0] & 0x80) | (iid & 0x1F);
                    }
                    refmodel::build_packet(dest, src, dest, src, 0xC8, p.type_byte, &body)
                }
                RefEnc::Refuse(_) => refmodel::build_control_request(dest, src, dest, src, iid, 0x02, &[]),
            }
        })
        .boxed()
}

/// A valid packet with one byte replaced.
pub fn mutated_valid_packet() -> BoxedStrategy<Vec<u8>> {
    (ref_valid_packet(), any::<u16>(), 1u8..=255, any::<bool>())
        .prop_map(|(mut p, pos, x, repair)| {
            let n = p.len();
            let i = (pos as usize * n) >> 16;
            p[i] ^= x;
            if repair {
                refmodel::fix_pec(&mut p);
            }
            p
        })
        .boxed()
}

/// A truncation (or extension) of a valid packet.
pub fn truncated_packet() -> BoxedStrategy<Vec<u8>> {
    (ref_valid_packet(), any::<u16>(), any::<bool>())
        .prop_map(|(mut p, pos, repair)| {
            let n = p.len();
            let k = (pos as usize * (n + 1)) >> 16;
            p.truncate(k);
            if repair && !p.is_empty() {
                refmodel::fix_pec(&mut p);
            }
            p
        })
        .boxed()
}

pub fn random_bytes(max: usize) -> BoxedStrategy<Vec<u8>> {
    prop_oneof![
        3 => vec(any::<u8>(), 0..=16),
        3 => vec(any::<u8>(), 0..=64),
        1 => vec(any::<u8>(), 0..=max),
    ]
    .boxed()
}

/// Random bytes behind a valid header prefix (reaches type-specific code).
pub fn random_behind_header() -> BoxedStrategy<Vec<u8>> {
    (any::<u8>(), any::<u8>(), type_byte(), vec(any::<u8>(), 0..=24), any::<bool>())
        .prop_map(|(b5, b6, b8, tail, repair)| {
            let mut v = vec![0x46, 0x0F, 0, 0x69, 0x01, b5, b6, 0xC8, b8];
            v.extend_from_slice(&tail);
            let n = v.len();
            v[2] = (n as u8).wrapping_sub(4);
            if repair {
                refmodel::fix_pec(&mut v);
            }
            v
        })
        .boxed()
}

/// Control requests with every command / operation / selector value and the
/// right data length, valid PEC: the inputs process_packet acts upon.
pub fn actionable_request() -> BoxedStrategy<Vec<u8>> {
    (addr7(), addr7(), any_u8(), any_u8(), 0u8..32, cmd_byte(), vec(any::<u8>(), 0..=20), prop_oneof![2 => any_u8(), 1 => 0u8..2], any_u8())
        .prop_map(|(dst, src, de, se, iid, cmd, mut data, b0, b1)| {
            if let Some(l) = refmodel::req_fixed_len(cmd) {
                data.resize(l, 0);
                if !data.is_empty() {
                    data[0] = b0;
                }
                if data.len() > 1 {
                    data[1] = b1;
                }
            }
            refmodel::build_control_request(dst, src, de, se, iid, cmd, &data)
        })
        .boxed()
}

/// Success control responses whose data *looks like* what a real responder
/// sends (rather than uniformly random bytes): version entries in the 0xF1 0xFx
/// BCD style with every plausible major / minor, EIDs with status bytes,
/// message-type lists, vendor ID answers of either format.  Data lengths are the
/// ones the decoder accepts for the command.
pub fn plausible_response() -> BoxedStrategy<Vec<u8>> {
    let bcd = || prop_oneof![6 => (0u8..=9).prop_map(|d| 0xF0 | d), 1 => Just(0xFFu8), 1 => Just(0x00u8), 1 => 0u8..=0x99];
    let data: BoxedStrategy<(u8, Vec<u8>)> = prop_oneof![
        3 => (prop_oneof![6 => Just(0xF1u8), 1 => Just(0xF0u8), 1 => Just(0xF2u8), 1 => Just(0x01u8)], bcd(), bcd(), prop_oneof![Just(0x00u8), Just(0x61u8), any::<u8>()], 1u8..=2)
            .prop_map(|(maj, min, upd, alpha, n)| (0x04u8, vec![n, maj, min, upd, alpha])),
        2 => (0u8..4, 0u8..4, set_eid_value(true), any_u8()).prop_map(|(a, b, eid, pool)| (0x01u8, vec![(a << 4) | b, eid, pool])),
        2 => (set_eid_value(true), 0u8..4, 0u8..4, any_u8()).prop_map(|(eid, t, i, m)| (0x02u8, vec![eid, (t << 4) | i, m, 0])),
        1 => uuid().prop_map(|u| (0x03u8, u.to_vec())),
        1 => msg_type_list(false).prop_map(|t| { let mut d = vec![t.len() as u8]; d.extend_from_slice(&t); (0x05u8, d) }),
        1 => (any_u8(), vendor_set()).prop_map(|(sel, (f, id, num))| {
            let mut d = vec![sel, f];
            if f == 0 { d.extend_from_slice(&(id as u16).to_be_bytes()); } else { d.extend_from_slice(&id.to_be_bytes()); }
            d.extend_from_slice(&num.to_be_bytes());
            (0x06u8, d)
        }),
        1 => (0x07u8..=0x14, vec(any::<u8>(), 0..=6)).prop_map(|(c, d)| (c, d)),
    ]
    .boxed();
    (addr7(), addr7(), any_u8(), any_u8(), prop_oneof![3 => Just(0u8), 1 => 0u8..32], data)
        .prop_map(|(dst, src, de, se, iid, (cmd, mut d))| {
            // the decoder's fixed response lengths
            let fixed = match cmd {
                0x01 => Some(3),
                0x02 => Some(3),
                0x03 => Some(16),
                0x04 => Some(5),
                0x08 => Some(4),
                0x09 => Some(1),
                _ => None,
            };
            if let Some(l) = fixed {
                d.resize(l, 0);
            }
            refmodel::build_control_response(dst, src, de, se, iid, cmd, 0, &d)
        })
        .boxed()
}

/// A packet whose SMBus byte count announces a frame that ends *inside* the
/// byte string (or exactly at its end), with the byte at the announced PEC
/// position made consistent with the bytes before it: what a receiver that
/// trusts the byte count rather than the slice length would take for a
/// complete, intact frame.  Small counts (frames that end inside the headers)
/// are weighted up.  The real final byte is repaired or not.
pub fn announce_inner_frame(mut p: Vec<u8>, k: u8, repair: bool) -> Vec<u8> {
    if p.len() >= 3 {
        p[2] = k;
        let pos = k as usize + 3;
        if pos < p.len() && pos >= 3 {
            p[pos] = crate::crc::crc8(&p[..pos]);
        }
        if repair {
            refmodel::fix_pec(&mut p);
        }
    }
    p
}

pub fn inner_frame_packet() -> BoxedStrategy<Vec<u8>> {
    (
        prop_oneof![3 => ref_valid_packet(), 2 => random_behind_header(), 1 => grammar_packet()],
        prop_oneof![3 => 0u8..=9, 2 => any::<u16>().prop_map(|x| (x >> 8) as u8), 1 => any::<u8>()],
        any::<u16>(),
        any::<bool>(),
        any::<bool>(),
    )
        .prop_map(|(p, small, pos, use_small, repair)| {
            let n = p.len();
            // either a small count or one that lands somewhere inside this packet
            let k = if use_small || n < 5 { small } else { ((pos as usize * (n - 3)) >> 16) as u8 };
            announce_inner_frame(p, k, repair)
        })
        .boxed()
}

/// The standard mix of receive-path inputs.
pub fn recv_input() -> BoxedStrategy<Vec<u8>> {
    prop_oneof![
        2 => inner_frame_packet(),
        8 => grammar_packet(),
        3 => ref_valid_packet(),
        3 => mutated_valid_packet(),
        2 => truncated_packet(),
        3 => actionable_request(),
        2 => random_behind_header(),
        1 => random_bytes(300),
        2 => plausible_response(),
    ]
    .boxed()
}

/// A short random prior history for a context (traffic + accessor calls).
pub fn prior_history(max: usize) -> BoxedStrategy<Vec<Op>> {
    vec(history_op(), 0..=max).boxed()
}

pub fn history_op() -> BoxedStrategy<Op> {
    prop_oneof![
        6 => (recv_input(), 64u16..=300, any::<u8>()).prop_map(|(bytes, cap, fill)| Op::Process { bytes, cap, fill }),
        4 => (actionable_request(), 64u16..=300, any::<u8>()).prop_map(|(bytes, cap, fill)| Op::Process { bytes, cap, fill }),
        2 => recv_input().prop_map(|bytes| Op::Decode { bytes }),
        1 => recv_input().prop_map(|bytes| Op::GetLength { bytes }),
        1 => any_u8().prop_map(Op::SetReqEid),
        1 => any_u8().prop_map(Op::SetRespEid),
        1 => uuid().prop_map(Op::SetUuid),
        1 => (enc_call(false, false, false), addr7()).prop_map(|(call, dest)| Op::Encode { call, dest }),
    ]
    .boxed()
}

// ---------------------------------------------------------------------------
// Forged control requests for the responder properties (C12-C15)

/// Weights of the request kinds: [set_eid, get_eid, uuid, version, msg_types, vendor, other]
pub type ReqWeights = [u32; 7];

/// A well-formed control request addressed to responder `a`, whose SMBus
/// source address and source EID name the same 7-bit requester.
pub fn ctrl_request(a: u8, nvend: usize, w: ReqWeights) -> BoxedStrategy<Vec<u8>> {
    ctrl_request_from(a, nvend, w, [(0x34, 0), (0x34, 0)])
}

/// As `ctrl_request`; one request in three comes from one of the two
/// (requester, instance id) pairs of `pool`, so that several requests of one
/// history share requester and instance id.
pub fn ctrl_request_from(a: u8, nvend: usize, w: ReqWeights, pool: [(u8, u8); 2]) -> BoxedStrategy<Vec<u8>> {
    let nv = nvend.max(1);
    let kind: BoxedStrategy<(u8, Vec<u8>)> = proptest::strategy::Union::new_weighted(vec![
        (w[0].max(1), (prop_oneof![6 => Just(0u8), 6 => Just(1u8), 3 => Just(3u8), 2 => Just(2u8), 1 => Just(4u8), 1 => Just(5u8), 1 => Just(0x80u8), 1 => Just(0x81u8), 1 => 4u8..=255], set_eid_value(false)).prop_map(|(op, eid)| (0x01u8, vec![op, eid])).boxed()),
        (w[1].max(1), Just((0x02u8, vec![])).boxed()),
        (w[2].max(1), Just((0x03u8, vec![])).boxed()),
        (w[3].max(1), any_u8().prop_map(|q| (0x04u8, vec![q])).boxed()),
        (w[4].max(1), Just((0x05u8, vec![])).boxed()),
        (w[5].max(1), (any::<u16>(), any::<u8>()).prop_map(move |(x, y)| (0x06u8, vec![if y & 7 == 0 { y | x as u8 } else { ((x as usize * nv) >> 16) as u8 }])).boxed()),
        (w[6].max(1), prop_oneof![
            2 => any_u8().prop_map(|e| (0x07u8, vec![e])),
            1 => (0u8..3, any_u8(), any_u8()).prop_map(|(o, p, s)| (0x08u8, vec![o, p, s])),
            3 => (prop_oneof![Just(0x00u8), 0x09u8..=0x14, 0x15u8..=0xFF], vec(any::<u8>(), 0..=4)).prop_map(|(c, d)| (c, d)),
            1 => (uuid(), any_u8()).prop_map(|(u, h)| { let mut d = u.to_vec(); d.push(h); (0x10u8, d) }),
        ].boxed()),
    ])
    .boxed();
    (
        prop_oneof![
            6 => (prop_oneof![5 => 0u8..=0x7F, 1 => Just(0x34u8), 1 => Just(0x7Fu8), 1 => Just(0x00u8), 2 => 0x80u8..=0xFF], prop_oneof![4 => 0u8..32, 1 => Just(0u8), 1 => Just(31u8)]),
            2 => Just(pool[0]),
            1 => Just(pool[1]),
        ],
        // datagram and reserved bits of the control byte: mostly clear
        prop_oneof![6 => Just(0u8), 2 => Just(0x40u8), 1 => Just(0x20u8), 1 => Just(0x60u8)],
        any_u8(),
        prop_oneof![3 => Just(0xC8u8), 1 => (0u8..16).prop_map(|t| 0xC0 | t)],
        kind,
    )
        .prop_map(move |((s, iid), dbits, dest_eid, flags, (cmd, mut data))| {
            // relation between fields: now and then the assigned EID equals the
            // requester's own EID, or the destination EID names the EID byte
            if cmd == 0x01 && data.len() == 2 && dest_eid & 7 == 0 && s != 0 && s != 0xFF {
                data[1] = s;
            }
            let mut body = vec![0x80 | dbits | (iid & 0x1F), cmd];
            body.extend_from_slice(&data);
            refmodel::build_packet(a, s, dest_eid, s, flags, 0x00, &body)
        })
        .boxed()
}

/// A corrupted or otherwise unacceptable variant of a control request.
pub fn spoiled(req: BoxedStrategy<Vec<u8>>) -> BoxedStrategy<Vec<u8>> {
    (req, 0u8..4, 1u8..=255, any::<u32>())
        .prop_map(|(mut p, how, x, pos)| {
            let n = p.len();
            match how {
                0 => {
                    // wrong PEC
                    p[n - 1] ^= x;
                }
                1 => {
                    // burst somewhere
                    let nbits = n as u64 * 8 - 7;
                    let bit = ((pos as u64 * nbits) >> 32) as u32;
                    p = crate::props::c02::apply_burst(&p, bit, x);
                }
                2 => {
                    // one data byte too many, PEC valid
                    p.insert(n - 1, x);
                    p[2] = p[2].wrapping_add(1);
                    refmodel::fix_pec(&mut p);
                }
                _ => {
                    // one byte too few (when there is data), PEC valid; else bad header version
                    if n > 12 {
                        p.remove(n - 2);
                        p[2] = p[2].wrapping_sub(1);
                    } else {
                        p[4] ^= 0x10;
                    }
                    refmodel::fix_pec(&mut p);
                }
            }
            p
        })
        .boxed()
}

fn process_op(bytes: BoxedStrategy<Vec<u8>>) -> BoxedStrategy<Op> {
    (bytes, 64u16..=300, any::<u8>()).prop_map(|(bytes, cap, fill)| Op::Process { bytes, cap, fill }).boxed()
}

/// Operation mix for the responder properties.  `w` weights the request
/// kinds; `seteid_noise` adds corrupted / decode-only Set Endpoint ID traffic.
pub fn responder_op(a: u8, nvend: usize, w: ReqWeights, seteid_noise: u32, uuid_updates: u32, pool: [(u8, u8); 2]) -> BoxedStrategy<Op> {
    let seteid_only: ReqWeights = [1000, 1, 1, 1, 1, 1, 1];
    proptest::strategy::Union::new_weighted(vec![
        (12, process_op(ctrl_request_from(a, nvend, w, pool))),
        (seteid_noise.max(1), process_op(spoiled(ctrl_request(a, nvend, seteid_only)))),
        (seteid_noise.max(1), ctrl_request(a, nvend, seteid_only).prop_map(|bytes| Op::Decode { bytes }).boxed()),
        (2, process_op(spoiled(ctrl_request(a, nvend, w)))),
        (2, process_op(ref_valid_packet())),
        (1, process_op(recv_input())),
        (1, recv_input().prop_map(|bytes| Op::Decode { bytes }).boxed()),
        (1, recv_input().prop_map(|bytes| Op::GetLength { bytes }).boxed()),
        (1, any_u8().prop_map(Op::SetReqEid).boxed()),
        (1, any_u8().prop_map(Op::SetRespEid).boxed()),
        (uuid_updates.max(1), uuid().prop_map(Op::SetUuid).boxed()),
        (2, (enc_call(false, false, false), addr7()).prop_map(|(call, dest)| Op::Encode { call, dest }).boxed()),
        (1, (resp_call(false), addr7()).prop_map(|(call, dest)| Op::Encode { call, dest }).boxed()),
    ])
    .boxed()
}

/// (configuration, history) for the responder properties.
pub fn responder_case(w: ReqWeights, seteid_noise: u32, uuid_updates: u32, max_ops: usize) -> BoxedStrategy<(CtxCfg, Vec<Op>)> {
    (if w[5] > 8 { ctx_cfg() } else { ctx_cfg_maybe_no_vendor() }, any::<u8>(), 0u8..32, any::<u8>(), 0u8..32)
        .prop_flat_map(move |(cfg, s1, i1, s2, i2)| {
            let a = cfg.addr;
            let n = cfg.vendors.len();
            (Just(cfg), vec(responder_op(a, n, w, seteid_noise, uuid_updates, [(s1, i1), (s2, i2)]), 1..=max_ops), any::<u16>())
        })
        .prop_map(|(cfg, mut ops, k)| {
            // one history in 64 is its operation list applied several times over, long
            // enough (260-300 operations) for 8-bit counters of requests to wrap; one in
            // 64 consists of one operation 3-9 times in a row
            match k & 63 {
                1 => {
                    ops.truncate(12);
                    let times = 260 / ops.len() + 1 + (k >> 6) as usize % 3;
                    ops = ops.iter().cloned().cycle().take(ops.len() * times).collect();
                }
                2 => {
                    let i = ((k >> 6) as usize * ops.len()) >> 10;
                    let op = ops[i.min(ops.len() - 1)].clone();
                    let times = 3 + (k >> 6) as usize % 7;
                    for _ in 0..times {
                        ops.push(op.clone());
                    }
                }
                _ => {}
            }
            (cfg, ops)
        })
        .boxed()
}

/// A request handed to process_packet on a configured responder (for the
/// framing / PEC / transport-header checks of generated responses).  The
/// request's transport flags are arbitrary (any tag, any sequence number).
pub fn resp_case() -> BoxedStrategy<crate::props::common::RespCase> {
    ctx_cfg()
        .prop_flat_map(|cfg| {
            let a = cfg.addr;
            let n = cfg.vendors.len();
            (
                Just(cfg),
                prop_oneof![3 => Just(Vec::new()).boxed(), 1 => prior_history(3)],
                ctrl_request(a, n, [2, 2, 2, 2, 2, 2, 2]),
                prop_oneof![2 => Just(0xC8u8), 1 => any::<u8>().prop_map(|x| x | 0xC0), 1 => any::<u8>()],
                64u16..=200,
                any::<u8>(),
            )
        })
        .prop_map(|(cfg, hist, mut req, flags, cap, fill)| {
            req[7] = flags;
            // one request in four carries an SMBus source address unrelated to its source EID
            if fill & 3 == 0 {
                req[3] = fill.wrapping_mul(29) | 1;
            }
            // ... and one in four is addressed (byte 0) to some other SMBus address
            if fill & 12 == 4 {
                req[0] = fill.wrapping_mul(53) & 0xFE;
            }
            refmodel::fix_pec(&mut req);
            crate::props::common::RespCase { cfg, hist, req, cap, fill }
        })
        .boxed()
}

/// A call that differs from `call` in one argument (or is the same call to a
/// slightly different destination).  Used as the *previous* encode on the same
/// context, to expose state kept between encodes (caches keyed on part of the
/// arguments, counters, ...).
pub fn similar_call(call: &EncCall, seed: u32) -> EncCall {
    use EncCall::*;
    let b = seed as u8;
    match call {
        ReqVendor { format, data, numeric, msg } => match seed % 6 {
            4 => ReqVendor { format: format ^ 1, data: data ^ (1 << (8 * (1 + (seed >> 8) % 3))), numeric: *numeric, msg: msg.clone() },
            5 => ReqVendor { format: format ^ 1, data: data ^ ((*format as u32 ^ 1) << 24), numeric: *numeric, msg: msg.clone() },
            0 => ReqVendor { format: *format, data: data ^ (((seed >> 8) | 1) << 16), numeric: *numeric, msg: msg.clone() },
            1 => ReqVendor { format: *format, data: data ^ ((seed >> 8) & 0xFFFF | 1), numeric: *numeric, msg: msg.clone() },
            2 => ReqVendor { format: format ^ 1, data: *data, numeric: *numeric, msg: msg.clone() },
            _ => ReqVendor { format: *format, data: *data, numeric: *numeric, msg: msg.iter().map(|x| x ^ b).collect() },
        },
        ReqSetEndpointId { op, eid } => ReqSetEndpointId { op: (op + 1 + b % 3) % 4, eid: if eid ^ b == 0 || eid ^ b == 0xFF { 0x42 } else { eid ^ b } },
        ReqAllocateEids { op, pool, start } => ReqAllocateEids { op: *op, pool: *start, start: *pool ^ b },
        ReqQueryHop { eid, mt } => ReqQueryHop { eid: eid ^ (b | 1), mt: (mt + 1) % 6 },
        ReqResolveUuid { uuid, handle } => {
            let mut u = *uuid;
            u[(b % 16) as usize] ^= b | 1;
            ReqResolveUuid { uuid: u, handle: handle ^ b }
        }
        ReqRoutingUpdate { entries } => {
            let mut e = entries.clone();
            if let Some(x) = e.last_mut() {
                x[(b % 4) as usize] ^= b | 1;
            } else {
                e.push([b, 1, 2, 3]);
            }
            ReqRoutingUpdate { entries: e }
        }
        TraitPci { half, header, data } => TraitPci { half: *half, header: header.clone(), data: data.iter().map(|x| x ^ b).collect() },
        TraitIana { half, header, data } => TraitIana { half: *half, header: header.clone(), data: data.iter().map(|x| x ^ b).collect() },
        TraitSpdm { half, secured, header, data } => TraitSpdm { half: *half, secured: !secured, header: header.clone(), data: data.clone() },
        RespUuid { cc, uuid } => {
            let mut u = *uuid;
            u[(b % 16) as usize] ^= b | 1;
            RespUuid { cc: *cc, uuid: u }
        }
        RespMsgTypes { cc, types } => {
            let mut t = types.clone();
            if t.len() < 30 {
                t.push(b);
            } else {
                t.pop();
            }
            RespMsgTypes { cc: *cc, types: t }
        }
        RespVendorSupport { cc, selector, vendor_id } => RespVendorSupport { cc: *cc, selector: selector ^ (b | 1), vendor_id: vendor_id.iter().map(|x| x ^ b).collect() },
        other => other.clone(),
    }
}

/// With probability 1/4 append, to the sender's history, an encode of a call
/// similar to `call` (to the same destination or to one differing in one bit);
/// with probability 1/128 the same call - or as many different variations of it - repeated 2-9 or 253-258 times.
pub fn with_similar_predecessor(mut env: EncEnv, call: &EncCall, seed: u32) -> EncEnv {
    if seed & 3 == 0 {
        let dest = match (seed >> 2) & 3 {
            0 => env.dest,
            1 => env.dest ^ 0x80,
            2 => env.dest ^ 0x01,
            _ => env.dest ^ (1 << ((seed >> 4) & 7)),
        };
        env.hist.push(Op::Encode { call: similar_call(call, seed >> 7), dest });
    }
    // one case in 128: the very same call has already been made 2-9 or 253-258
    // times on this context (counters, toggles, "first call only" behaviour)
    if seed & 0x7F == 0x41 {
        let n = if (seed >> 8) & 1 == 0 { 2 + (seed >> 9) % 8 } else { 253 + (seed >> 9) % 6 };
        // ... or that many *different* calls of the same kind (each a variation of the
        // call under test: other identifiers, other parameters)
        let distinct = (seed >> 12) & 1 == 1;
        for i in 0..n {
            let c = if distinct { similar_call(call, (seed >> 7).wrapping_mul(0x9E37_79B1).wrapping_add(i.wrapping_mul(0x85EB_CA6B)) >> 3) } else { call.clone() };
            env.hist.push(Op::Encode { call: c, dest: env.dest });
        }
    }
    env
}

/// (environment, call) pairs for the encoder-side properties: the environment
/// of `enc_env`, now and then extended by a similar predecessor encode.
pub fn enc_pair(dest: BoxedStrategy<u8>, call: BoxedStrategy<EncCall>) -> BoxedStrategy<(EncEnv, EncCall)> {
    (enc_env(dest), call, any::<u32>()).prop_map(|(env, call, seed)| (with_similar_predecessor(env, &call, seed), call)).boxed()
}
