//! Independent bitwise CRC-8 (SMBus PEC): polynomial x^8+x^2+x+1 (0x07),
//! initial value 0, MSB first, no reflection, no final XOR.
//! Shares no code with `smbus-pec`.

pub fn crc8(data: &[u8]) -> u8 {
    let mut crc: u8 = 0;
    for &b in data {
        crc ^= b;
        for _ in 0..8 {
            if crc & 0x80 != 0 {
                crc = (crc << 1) ^ 0x07;
            } else {
                crc <<= 1;
            }
        }
    }
    crc
}

/// Self-check of the oracle; aborts the run (exit 2) if the oracle is broken.
pub fn self_check() -> Result<(), String> {
    if crc8(b"123456789") != 0xF4 {
        return Err("crc8 check value mismatch".into());
    }
    let msg = [0x46u8, 0x0f, 0x0a, 0x69, 0x01, 0x23, 0x34, 0xc8, 0x00, 0x80, 0x02];
    let p = crc8(&msg);
    let mut all = msg.to_vec();
    all.push(p);
    if crc8(&all) != 0 {
        return Err("crc8(msg||pec) != 0".into());
    }
    // golden packets from the repository's tests
    let g1: [u8; 14] = [
        0x44, 0x0f, 0x0a, 0x69, 0x01, 0x22, 0x34, 0xc8, 0x05, 0x10, 0x84, 0x00, 0x00, 0x9c,
    ];
    if crc8(&g1[..13]) != g1[13] {
        return Err("crc8 golden packet 1 mismatch".into());
    }
    let g2: [u8; 18] = [
        0x68, 0x0f, 0x0e, 0x45, 0x01, 0x34, 0x22, 0xc8, 0x05, 0x10, 0x04, 0x00, 0x00, 0x00, 0x01,
        0x00, 0x12, 0x97,
    ];
    if crc8(&g2[..17]) != g2[17] {
        return Err("crc8 golden packet 2 mismatch".into());
    }
    Ok(())
}
