//! Parser for /verif/KNOWN_FINDINGS.txt (committed, never written at run time).
//!
//! Lines:
//!   open: property=<ID> sig=<signature> <what fails>
//!   fixed: property=<ID> <commit> <what failed>
//! `fixed` entries suppress nothing.

#[derive(Clone, Debug)]
pub struct OpenFinding {
    pub property: String,
    pub sig: String,
    pub what: String,
}

#[derive(Clone, Debug, Default)]
pub struct Known {
    pub open: Vec<OpenFinding>,
}

impl Known {
    pub fn load(path: &std::path::Path) -> Known {
        let mut k = Known::default();
        let Ok(text) = std::fs::read_to_string(path) else { return k };
        for line in text.lines() {
            let line = line.trim();
            if let Some(rest) = line.strip_prefix("open:") {
                let mut property = String::new();
                let mut sig = String::new();
                let mut what = Vec::new();
                for tok in rest.split_whitespace() {
                    if property.is_empty() && tok.starts_with("property=") {
                        property = tok["property=".len()..].to_string();
                    } else if sig.is_empty() && tok.starts_with("sig=") {
                        sig = tok["sig=".len()..].to_string();
                    } else {
                        what.push(tok);
                    }
                }
                if !property.is_empty() && !sig.is_empty() {
                    k.open.push(OpenFinding { property, sig, what: what.join(" ") });
                }
            }
        }
        k
    }

    pub fn find(&self, property: &str, sig: &str) -> Option<&OpenFinding> {
        self.open.iter().find(|f| f.property == property && f.sig == sig)
    }
}
