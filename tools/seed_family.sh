#!/bin/bash
# Re-run, for each named seeded change, the quick checks of its own property's family
# (encoder side / receive side / responder / views / conversions) and record them in meta.json.
#   tools/seed_family.sh _N _O
cd "$(dirname "$0")/.."
ENC="C01,C03,C04,C05,C06,C07,C08,C16"
RECV="C02,C09,C10,C11,C17"
RESP="C12,C13,C14,C15"
for pat in "$@"; do
  for d in seeded/*$pat; do
    n=$(basename "$d"); own=${n%%_*}
    case $own in
      C01|C03|C04|C05|C06|C07|C08|C16) props="$ENC,C10,C12" ;;
      C02|C09|C10|C11|C17) props="$RECV,$RESP,C01" ;;
      C12|C13|C14|C15) props="$RESP,C07,C09,C10,C11" ;;
      C18) props="C18,C05,C09,C19" ;;
      *) props="C19,C18,C09,C12" ;;
    esac
    python3 tools/seed_recheck.py --props "$props" "$n" 2>&1 | tail -1
  done
done
