#!/usr/bin/env python3
"""Re-run the quick checks against the kept seeded changes (/verif/seeded/*/patch.diff).

    python3 tools/seed_recheck.py [--props C06,C12] [name-substring ...]

Applies each patch to /repo (git apply), runs the checks, undoes it (git checkout -- .),
and updates checks_quick / caught_by in the change's meta.json.  Prints a summary table
(also written to seeded/SUMMARY.md when no filter is given).
"""
import os as _os
_os.environ["MCTP_NO_EVIDENCE"] = "1"  # runs against modified trees must never overwrite /verif/evidence

import json, os, subprocess, sys, time, glob
VERIF = os.path.dirname(os.path.dirname(os.path.abspath(__file__)))
REPO = os.environ.get("EVAL_REPO", "/repo")
ALL = ["C%02d" % i for i in range(1, 20)]

def sh(cmd, cwd=None):
    p = subprocess.run(cmd, shell=True, cwd=cwd, stdout=subprocess.PIPE, stderr=subprocess.STDOUT, text=True)
    return p.returncode, p.stdout

def main():
    args = sys.argv[1:]
    own_only = False
    if args and args[0] == "--own":
        # robustness probe: only the check of the change's own property, nothing is recorded
        own_only = True; args = args[1:]
    props = ALL
    if args and args[0] == "--props":
        props = args[1].split(","); args = args[2:]
    rc, out = sh("git status --porcelain", REPO)
    if out.strip():
        print("/repo not clean"); return 2
    rows = []
    for d in sorted(glob.glob(os.path.join(VERIF, "seeded", "C*_*"))):
        name = os.path.basename(d)
        if args and not any(a in name for a in args):
            continue
        meta = json.load(open(os.path.join(d, "meta.json")))
        if own_only:
            rc, out = sh("git apply %s" % os.path.join(d, "patch.diff"), REPO)
            try:
                rc, out = sh("./check %s quick" % meta["property"], VERIF)
            finally:
                sh("git checkout -- .", REPO); sh("rm -f replays/*.json", VERIF)
            print(name, meta["property"], "exit", rc, flush=True)
            continue
        rc, out = sh("git apply %s" % os.path.join(d, "patch.diff"), REPO)
        if rc != 0:
            print(name, "patch does not apply:", out[-200:]); continue
        try:
            res = meta.get("checks_quick", {})
            for p in props:
                t0 = time.time()
                rc, out = sh("./check %s quick" % p, VERIF)
                first = next((l[:300] for l in out.splitlines() if l.startswith("FAIL ")), "")
                if not first and rc != 0:
                    first = (out.strip().splitlines() or [""])[-1][:300]
                res[p] = {"exit": rc, "first": first, "s": round(time.time() - t0, 1)}
        finally:
            sh("git checkout -- .", REPO)
            sh("rm -f replays/*.json", VERIF)
        meta["checks_quick"] = res
        meta["caught_by"] = sorted(p for p, v in res.items() if v.get("exit") == 1)
        meta["inconclusive"] = sorted(p for p, v in res.items() if v.get("exit") not in (0, 1))
        json.dump(meta, open(os.path.join(d, "meta.json"), "w"), indent=1)
        print(name, "caught_by", meta["caught_by"], "exit2", meta["inconclusive"], flush=True)
        rows.append((name, meta))
    if not args and props == ALL:
        write_summary()
    return 0

def write_summary():
    with open(os.path.join(VERIF, "seeded", "SUMMARY.md"), "w") as f:
        f.write("# Seeded breaking changes (written by independent sub-agents)\n\n")
        f.write("Each change compiles, keeps the repository's 59 unit tests + 4 doctests green, and comes with a demonstration test that fails with it and passes without it (confirmed by tools/seed_eval.py). Columns: the property the author was given; which quick checks exit 1 with the patch applied to /repo.\n\n")
        f.write("| change | target property | what it needs to manifest | caught by (quick) | own property catches it |\n|---|---|---|---|---|\n")
        for d in sorted(glob.glob(os.path.join(VERIF, "seeded", "C*_*"))):
            m = json.load(open(os.path.join(d, "meta.json")))
            need = (m.get("agent_meta", {}).get("needs_to_manifest", "") or "").replace("|", "/").replace("\n", " ")
            f.write("| %s | %s | %s | %s | %s |\n" % (os.path.basename(d), m["property"], need[:260], ", ".join(m.get("caught_by", [])) or "-", "yes" if m["property"] in m.get("caught_by", []) else "NO"))

if __name__ == "__main__":
    if len(sys.argv) > 1 and sys.argv[1] == "--summary":
        write_summary()
    else:
        sys.exit(main())
