#!/usr/bin/env python3
"""Bring a sub-agent's deliverables (<wt>/out/{patch.diff,demo.rs,meta.json}) into the layout
tools/seed_eval.py expects (<wt>/patch_A.diff, <wt>/tests/demo_<ID>_A.rs, <wt>/meta.json)."""
import json, os, shutil, sys
root = os.environ.get("SEED_DIR", "/tmp/wt")
for pid in sys.argv[1:]:
    wt = os.path.join(root, pid)
    out = os.path.join(wt, "out")
    if not os.path.exists(os.path.join(out, "patch.diff")):
        print(pid, "no deliverables yet"); continue
    shutil.copy(os.path.join(out, "patch.diff"), os.path.join(wt, "patch_A.diff"))
    os.makedirs(os.path.join(wt, "tests"), exist_ok=True)
    shutil.copy(os.path.join(out, "demo.rs"), os.path.join(wt, "tests", "demo_%s_A.rs" % pid))
    try:
        m = json.load(open(os.path.join(out, "meta.json")))
    except Exception as e:
        m = {"error": str(e)}
    json.dump({"A": m}, open(os.path.join(wt, "meta.json"), "w"), indent=1)
    print(pid, "adapted")
