#!/bin/bash
# Run every check's quick (or thorough) command once and validate the evidence files.
TIER="${1:-quick}"
cd "$(dirname "$0")/.."
rc=0
for i in 01 02 03 04 05 06 07 08 09 10 11 12 13 14 15 16 17 18 19; do
  out=$(./check C$i $TIER 2>&1); code=$?
  echo "$out" | grep -v '^KNOWN-FINDING' | tail -n 3
  [ $code -ne 0 ] && { echo "!! C$i exit $code"; rc=1; }
done
python3-vt - <<'PY'
import json, jsonschema, glob
s=json.load(open('/root/.vp/EVIDENCE.schema.json'))
for f in sorted(glob.glob('evidence/C*.json')):
    e=json.load(open(f)); jsonschema.validate(e,s)
print("all evidence files validate")
PY
exit $rc
