#!/usr/bin/env python3
"""Fill / refresh the seeded-change table of DESIGN.md section 8.2 from seeded/*/meta.json."""
import json, glob, os, re
ROOT = os.path.dirname(os.path.dirname(os.path.abspath(__file__)))
def cut(t, n):
    t = (t or "").replace("|", "/").replace("\n", " ")
    return t if len(t) <= n else t[:n - 1].rstrip() + "…"
rows = []
for d in sorted(glob.glob(os.path.join(ROOT, "seeded", "C*_*"))):
    m = json.load(open(os.path.join(d, "meta.json")))
    am = m.get("agent_meta", {})
    rows.append("| %s | %s | %s | %s |" % (os.path.basename(d), cut(am.get("summary"), 230), cut(am.get("needs_to_manifest"), 200), ", ".join(m.get("caught_by", []))))
p = os.path.join(ROOT, "DESIGN.md")
s = open(p).read()
hdr = "| change | what was changed | what it needs to manifest | caught by |\n|---|---|---|---|\n"
i = s.index(hdr) + len(hdr)
j = s.index("\n\n", i)
s = s[:i] + "\n".join(rows) + s[j:]
open(p, "w").write(s)
print(len(rows), "rows")
