#!/usr/bin/env python3
"""Confirm and evaluate seeded breaking changes written by independent sub-agents.

    python3 tools/seed_eval.py C01 C02 ...        (scratch worktrees under /tmp/seed/<ID>)

For each change X in {A, B} of each id:
  1. confirm in the scratch worktree: demo passes on the clean tree; with the patch applied the
     repository's own tests (--lib, --doc) still pass and the demo fails; restore the tree;
  2. apply the patch to /repo, run every check's quick command, undo (git checkout -- .);
  3. keep it as /verif/seeded/<ID>_<X>/ {patch.diff, demo.rs, meta.json}.
"""
import os as _os
_os.environ["MCTP_NO_EVIDENCE"] = "1"  # runs against modified trees must never overwrite /verif/evidence

import json, os, shutil, subprocess, sys, time

VERIF = os.path.dirname(os.path.dirname(os.path.abspath(__file__)))
REPO = os.environ.get("EVAL_REPO", "/repo")
SEED = os.environ.get("SEED_DIR", "/tmp/seed")
# round 2 changes are kept as <ID>_C / <ID>_D
RENAME = {"2": {"A": "C", "B": "D"}, "3": {"A": "E", "B": "F"}, "4": {"A": "G", "B": "H"}, "5": {"A": "I", "B": "J"}, "6": {"A": "K", "B": "L"}, "7": {"A": "M", "B": "N"}, "8": {"A": "N", "B": "O"}, "9": {"A": "O", "B": "P"}}.get(os.environ.get("SEED_ROUND", "1"), {"A": "A", "B": "B"})
ENV = dict(os.environ, CARGO_NET_OFFLINE="true", CARGO_TARGET_DIR=SEED + "/target_shared")
ALL = ["C%02d" % i for i in range(1, 20)]


def sh(cmd, cwd=None, env=None, timeout=3600):
    p = subprocess.run(cmd, shell=True, cwd=cwd, env=env, stdout=subprocess.PIPE, stderr=subprocess.STDOUT, text=True, timeout=timeout)
    return p.returncode, p.stdout


def test_ok(out):
    return "test result: ok" in out and "FAILED" not in out and "error:" not in out and "error[" not in out


def confirm(pid, x, wt):
    demo = "demo_%s_%s" % (pid, x)
    res = {}
    rc, out = sh("git status --porcelain -- src", wt)
    if out.strip():
        sh("git checkout -- src", wt)
    rc, out = sh("cargo test --offline --test %s 2>&1 | tail -n 30" % demo, wt, ENV)
    res["clean_demo_passes"] = test_ok(out)
    rc, out = sh("git apply patch_%s.diff" % x, wt)
    res["patch_applies"] = rc == 0
    if rc != 0:
        res["apply_error"] = out[-400:]
        return res
    try:
        rc, out = sh("cargo test --offline --lib 2>&1 | tail -n 8", wt, ENV)
        res["lib_tests_pass"] = test_ok(out) and "59 passed" in out
        rc, out = sh("cargo test --offline --doc 2>&1 | tail -n 8", wt, ENV)
        res["doc_tests_pass"] = test_ok(out) and "4 passed" in out
        rc, out = sh("cargo test --offline --test %s 2>&1 | tail -n 40" % demo, wt, ENV)
        res["patched_demo_fails"] = ("FAILED" in out or "panicked" in out) and "error[" not in out
        res["patched_demo_tail"] = out[-600:]
    finally:
        sh("git checkout -- src", wt)
    return res


def run_checks(patch):
    rc, out = sh("git status --porcelain", REPO)
    if out.strip():
        raise SystemExit("/repo is not clean: " + out)
    rc, out = sh("git apply %s" % patch, REPO)
    if rc != 0:
        return {"error": "patch does not apply to /repo: " + out[-300:]}
    results = {}
    try:
        only = os.environ.get("SEED_PROPS")
        for p in ALL:
            if only and p not in only.replace("OWN", os.environ.get("SEED_OWN", "")).split(","):
                continue
            t0 = time.time()
            rc, out = sh("./check %s quick" % p, VERIF)
            line = ""
            for l in out.splitlines():
                if l.startswith("FAIL "):
                    line = l[:300]
                    break
            if not line and rc != 0:
                line = out.strip().splitlines()[-1][:300] if out.strip() else ""
            results[p] = {"exit": rc, "first": line, "s": round(time.time() - t0, 1)}
    finally:
        sh("git checkout -- .", REPO)
        sh("rm -f replays/*.json", VERIF)
    return results


def main():
    ids = sys.argv[1:]
    summary = []
    for pid in ids:
        wt = os.path.join(SEED, pid)
        try:
            meta_all = json.load(open(os.path.join(wt, "meta.json")))
        except Exception as e:
            print(pid, "no meta.json:", e)
            meta_all = {}
        for x in ["A", "B"]:
            patch = os.path.join(wt, "patch_%s.diff" % x)
            demo = os.path.join(wt, "tests", "demo_%s_%s.rs" % (pid, x))
            if not (os.path.exists(patch) and os.path.exists(demo)):
                print(pid, x, "missing deliverables")
                continue
            conf = confirm(pid, x, wt)
            confirmed = all(conf.get(k) for k in ["clean_demo_passes", "patch_applies", "lib_tests_pass", "doc_tests_pass", "patched_demo_fails"])
            os.environ["SEED_OWN"] = pid
            checks = run_checks(patch) if confirmed else {}
            caught = sorted(p for p, v in checks.items() if isinstance(v, dict) and v.get("exit") == 1)
            other = sorted(p for p, v in checks.items() if isinstance(v, dict) and v.get("exit") not in (0, 1))
            out = os.path.join(VERIF, "seeded", "%s_%s" % (pid, RENAME[x]))
            os.makedirs(out, exist_ok=True)
            shutil.copy(patch, os.path.join(out, "patch.diff"))
            shutil.copy(demo, os.path.join(out, "demo.rs"))
            meta = {
                "property": pid,
                "variant": RENAME[x],
                "round": int(os.environ.get("SEED_ROUND", "1")),
                "author": "independent sub-agent given only the property text and a scratch worktree",
                "agent_meta": meta_all.get(x, {}),
                "confirmed_by_me": conf,
                "confirmed": confirmed,
                "ran": "tools/seed_eval.py: scratch worktree: cargo test --test demo (clean: pass), git apply, cargo test --lib/--doc (pass), cargo test --test demo (fail), git checkout; then git -C /repo apply, ./check <all 19> quick, git -C /repo checkout -- .",
                "checks_quick": checks,
                "caught_by": caught,
                "inconclusive": other,
            }
            json.dump(meta, open(os.path.join(out, "meta.json"), "w"), indent=1)
            print(pid, x, "confirmed" if confirmed else "NOT-CONFIRMED %s" % {k: v for k, v in conf.items() if k != "patched_demo_tail"}, "caught_by", caught, "exit2", other, flush=True)
            summary.append((pid, x, confirmed, caught, other))
    return 0


if __name__ == "__main__":
    sys.exit(main())
